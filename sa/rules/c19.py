"""C19 — lattice geometry: predefined neighbour tables agree with the Euclidean distances of the
literal geometry (R-GEOM, closed computation on literal tables), inverse-pair overrides come in
pairs. Bijectivity of index maps / exactness of possible_couplings over all orderings and
boundaries are properties of run-time permutations and not decided."""
import ast
import itertools
import math

from ..core import AnalysisError, body_nodes, dotted, key_text, kwarg, params, stmts_of, unparse
from ..flow import stale_derived
from ..normal import inline_temps
from ..pattern import find, pmatch

LAT = 'tenpy/models/lattice.py'
CATS = ['nearest_neighbors', 'next_nearest_neighbors', 'next_next_nearest_neighbors',
        'fourth_nearest_neighbors', 'fifth_nearest_neighbors']
CLASSES = {'Chain': 1, 'Ladder': 1, 'Square': 2, 'Triangular': 2, 'Honeycomb': 2, 'Kagome': 2}


class NotConst(Exception):
    pass


def ceval(node, env):
    """whitelisted constant folder for literal geometry tables (nested python lists of floats)"""
    if isinstance(node, ast.Constant) and isinstance(node.value, (int, float)):
        return float(node.value)
    if isinstance(node, (ast.Tuple, ast.List)):
        return [ceval(e, env) for e in node.elts]
    if isinstance(node, ast.Name):
        if node.id in env:
            return env[node.id]
        raise NotConst(node.id)
    if isinstance(node, ast.UnaryOp) and isinstance(node.op, ast.USub):
        return _map1(lambda x: -x, ceval(node.operand, env))
    if isinstance(node, ast.BinOp):
        a, b = ceval(node.left, env), ceval(node.right, env)
        op = type(node.op)
        f = {ast.Add: lambda x, y: x + y, ast.Sub: lambda x, y: x - y,
             ast.Mult: lambda x, y: x * y, ast.Div: lambda x, y: x / y,
             ast.Pow: lambda x, y: x ** y}.get(op)
        if f is None:
            raise NotConst(unparse(node))
        return _map2(f, a, b)
    if isinstance(node, ast.Call):
        d = dotted(node.func)
        if d in ('np.array', 'np.asarray') and node.args:
            return ceval(node.args[0], env)
        if d in ('np.sqrt', 'math.sqrt') and node.args:
            return _map1(math.sqrt, ceval(node.args[0], env))
        raise NotConst(unparse(node))
    if isinstance(node, ast.Subscript) and isinstance(node.slice, ast.Constant):
        v = ceval(node.value, env)
        return v[int(node.slice.value)]
    raise NotConst(unparse(node))


def _map1(f, a):
    return [_map1(f, x) for x in a] if isinstance(a, list) else f(a)


def _map2(f, a, b):
    if isinstance(a, list) and isinstance(b, list):
        if len(a) != len(b):
            raise NotConst('shape')
        return [_map2(f, x, y) for x, y in zip(a, b)]
    if isinstance(a, list):
        return [_map2(f, x, b) for x in a]
    if isinstance(b, list):
        return [_map2(f, a, y) for y in b]
    return f(a, b)


def extract_geometry(m, cname, dim):
    f = m.func(cname + '.__init__')
    env = {}
    pairs = {}
    basis = None
    pos = None
    for st in stmts_of(f):
        if isinstance(st, ast.Assign) and len(st.targets) == 1 and isinstance(
                st.targets[0], ast.Name):
            try:
                env[st.targets[0].id] = ceval(st.value, env)
            except NotConst:
                pass
        if isinstance(st, ast.Expr) and isinstance(st.value, ast.Call):
            c = st.value
            d = dotted(c.func) or ''
            if d == 'kwargs.setdefault' and len(c.args) == 2 and isinstance(
                    c.args[0], ast.Constant):
                k = c.args[0].value
                if k in ('basis', 'positions'):
                    try:
                        v = ceval(c.args[1], env)
                    except NotConst as e:
                        raise AnalysisError('%s: %s is not a literal table (%s)' % (cname, k, e))
                    if k == 'basis':
                        basis = v
                    else:
                        pos = v
            if unparse(c.func) == "kwargs['pairs'].setdefault" and len(c.args) == 2 and isinstance(
                    c.args[0], ast.Constant):
                try:
                    pairs[c.args[0].value] = ceval(c.args[1], env)
                except NotConst as e:
                    raise AnalysisError('%s: pair list %r is not literal (%s)' %
                                        (cname, c.args[0].value, e))
    if basis is None:
        basis = [[1.0 if i == j else 0.0 for j in range(dim)] for i in range(dim)]
    nu = 1
    for lst in pairs.values():
        for u1, u2, dx in lst:
            nu = max(nu, int(u1) + 1, int(u2) + 1)
    if pos is None:
        pos = [[0.0] * len(basis[0]) for _ in range(nu)]
    return basis, pos, pairs, f


def _dist(basis, pos, u1, u2, dx):
    d = len(basis[0])
    v = [pos[u2][k] - pos[u1][k] + sum(dx[i] * basis[i][k] for i in range(len(dx)))
         for k in range(d)]
    return math.sqrt(sum(x * x for x in v))


def check_geometry(prog, rep):
    m = prog.module(LAT)
    rep.unit(m)
    n_cat = 0
    for cname, dim in CLASSES.items():
        basis, pos, pairs, f = extract_geometry(m, cname, dim)
        nu = len(pos)
        W = 4
        # all undirected pairs in a window, canonical representative
        allp = {}
        for u1 in range(nu):
            for u2 in range(nu):
                for dx in itertools.product(range(-W, W + 1), repeat=dim):
                    if u1 == u2 and all(x == 0 for x in dx):
                        continue
                    key = _canon(u1, u2, dx)
                    allp[key] = _dist(basis, pos, u1, u2, dx)
        dists = sorted(set(round(v, 9) for v in allp.values()))
        for k, cat in enumerate(CATS):
            if cat not in pairs:
                continue
            n_cat += 1
            lst = [(int(u1), int(u2), tuple(int(round(x)) for x in dx))
                   for u1, u2, dx in pairs[cat]]
            q = cname + '.__init__'
            rep.instance('GEOM-neighbors', {'lattice': cname, 'category': cat, 'pairs': len(lst)})
            bad_u = [p for p in lst if not (0 <= p[0] < nu and 0 <= p[1] < nu)]
            if bad_u:
                rep.violation('GEOM-neighbors', m, q, 'u-out-of-cell:%s:%s' % (cname, cat),
                              '%s %s: unit-cell index out of range in %s' % (cname, cat, bad_u),
                              f.lineno)
                continue
            ds = [round(_dist(basis, pos, *p), 9) for p in lst]
            if len(set(ds)) != 1:
                rep.violation('GEOM-neighbors', m, q, 'unequal-lengths:%s:%s' % (cname, cat),
                              '%s: the pairs listed as %s have different Euclidean lengths %s' %
                              (cname, cat, sorted(set(ds))), f.lineno)
                continue
            if k >= len(dists) or abs(ds[0] - dists[k]) > 1e-8:
                rep.violation('GEOM-neighbors', m, q, 'wrong-shell:%s:%s' % (cname, cat),
                              '%s: %s have length %.6f but the %d-th smallest distance between '
                              'sites of this lattice is %.6f' %
                              (cname, cat, ds[0], k + 1, dists[k] if k < len(dists) else -1),
                              f.lineno)
                continue
            canon = [_canon(*p) for p in lst]
            if len(set(canon)) != len(canon):
                rep.violation('GEOM-neighbors', m, q, 'duplicate-pair:%s:%s' % (cname, cat),
                              '%s: %s lists a pair twice (up to (u1,u2,dx) ~ (u2,u1,-dx)): the '
                              'coupling would be added twice' % (cname, cat), f.lineno)
                continue
            # completeness: every pair of that length starting in the unit cell is listed once
            want = {key for key, v in allp.items() if abs(v - dists[k]) < 1e-8 and
                    max(abs(x) for x in key[2]) < W}
            got = set(canon)
            missing = sorted(want - got)
            extra = sorted(got - want)
            if missing or extra:
                rep.violation('GEOM-neighbors', m, q, 'incomplete:%s:%s' % (cname, cat),
                              '%s: %s is not exactly the set of pairs at distance %.6f per unit '
                              'cell: missing %s, unexpected %s' %
                              (cname, cat, dists[k], missing[:4], extra[:4]), f.lineno)
    return n_cat


def _canon(u1, u2, dx):
    a = (u1, u2, tuple(dx))
    b = (u2, u1, tuple(-x for x in dx))
    return min(a, b)


PAIRED = [('mps2lat_idx', 'lat2mps_idx'), ('possible_couplings', 'possible_multi_couplings'),
          ('_keep_possible_couplings', '_keep_possible_multi_couplings'),
          ('save_hdf5', 'from_hdf5')]


def check_override_pairs(prog, rep):
    ct = prog.classtable()
    base = ct.get('Lattice')
    for ci in ct.cone(base):
        if ci is base:
            continue
        for a, b in PAIRED:
            ha, hb = a in ci.methods, b in ci.methods
            if ha or hb:
                rep.instance('GEOM-override-pairs', {'class': ci.name, 'pair': [a, b],
                                                     'overridden': [ha, hb]})
            if ha != hb:
                have, lack = (a, b) if ha else (b, a)
                rep.violation('GEOM-override-pairs', ci.module, ci.name,
                              'unpaired-override:%s' % have,
                              '%s overrides %s but not its counterpart %s: the two maps are no '
                              'longer inverse / consistent for this lattice' %
                              (ci.name, have, lack), ci.node.lineno)
    # ordering(): unknown names fall through to the parent class
    m = prog.module(LAT)
    for ci in ct.cone(base):
        f = ci.methods.get('ordering')
        if f is None or ci is base:
            continue
        rep.instance('GEOM-ordering', {'class': ci.name})
        src = unparse(f)
        if 'super().ordering(' not in src and '.ordering(order)' not in src and \
                'regular_lattice.ordering' not in src:
            rep.violation('GEOM-ordering', ci.module, ci.name + '.ordering', 'no-fallthrough',
                          'orderings not handled by %s must be delegated to the parent class' %
                          ci.name, f.lineno)


def check_index_maps(prog, rep):
    """mps2lat_idx / lat2mps_idx of the base class use order and its inverse permutation"""
    m = prog.module(LAT)
    f = m.func('Lattice.order#2') if m.has_func('Lattice.order#2') else None
    setter = None
    for q, fn in m.functions.items():
        if q.startswith('Lattice.order') and any(
                (dotted(d) or '').endswith('.setter') for d in fn.decorator_list):
            setter = fn
    if setter is None:
        raise AnalysisError('Lattice.order setter not found')
    src = unparse(setter)
    rep.instance('GEOM-index-maps', {'function': 'Lattice.order.setter'})
    ok = 'self._order = ' in src and 'self._perm' in src and 'self._mps2lat_vals_idx' in src and \
        'np.lexsort' in src
    if not ok:
        rep.violation('GEOM-index-maps', m, 'Lattice.order', 'setter',
                      'setting the order must recompute the inverse permutation (_perm via '
                      'lexsort) and the value-reshaping index tables together', setter.lineno)
    g = m.func('Lattice.lat2mps_idx')
    h = m.func('Lattice.mps2lat_idx')
    rep.instance('GEOM-index-maps', {'function': 'lat2mps_idx/mps2lat_idx'})
    if 'self._perm' not in unparse(g) or 'self.order' not in unparse(h):
        rep.violation('GEOM-index-maps', m, 'Lattice.lat2mps_idx', 'inverse-maps',
                      'lat2mps_idx must use the inverse permutation of the order that '
                      'mps2lat_idx reads', g.lineno)


def check_stale_masks(prog, rep):
    """lattice.py: a mask derived from coordinate arrays is applied to those arrays only in the
    state it was derived from (the boundary filter of possible_couplings must see the corrected
    coordinates: the MPS index is computed from them)"""
    m = prog.module(LAT)
    total = 0
    for q, f in m.functions.items():
        hits, pairs = stale_derived(f)
        total += pairs
        if pairs:
            rep.instance('GEOM-stale-mask', {'function': q, 'mask_uses': pairs})
        seen = set()
        for d, s_, u, X, mname in hits:
            if (id(d), id(s_)) in seen:
                continue
            seen.add((id(d), id(s_)))
            rep.violation('GEOM-stale-mask', m, q, 'stale:%s:%s' % (mname, X),
                          '`%s` is derived from `%s` (`%s`), then `%s` changes `%s` in place, and '
                          'afterwards `%s[%s]` is used (`%s`): the selection was made on the old '
                          'coordinates' % (mname, X, key_text(d)[:60], key_text(s_)[:50], X, X,
                                           mname, key_text(u)[:50]), s_.lineno)
    return total


# attributes whose length is another attribute (established in __init__ of the class)
LENGTH_OF = {'self.species_names': 'self.N_species'}


def check_radix(prog, rep):
    """MultiSpeciesLattice: unit-cell index = simple_u * N_species + species_idx everywhere the
    combination is written out (the class inlines simple_u_to_species_u in several places): the
    minor index runs over the species, so the radix must be the number of species."""
    m = prog.module(LAT)
    n = 0
    for q, f0 in m.functions.items():
        if not q.startswith('MultiSpeciesLattice.'):
            continue
        f = inline_temps(f0)
        minor = {}
        for x in ast.walk(f):
            if isinstance(x, (ast.For, ast.comprehension)):
                e = pmatch('enumerate($$seq)', x.iter)
                if e and isinstance(x.target, ast.Tuple) and isinstance(x.target.elts[0], ast.Name):
                    ln = LENGTH_OF.get(unparse(e['$$seq']))
                    if ln:
                        minor[x.target.elts[0].id] = ln
                e = pmatch('range($$n)', x.iter)
                if e and isinstance(x.target, ast.Name) and unparse(e['$$n']) == 'self.N_species':
                    minor[x.target.id] = 'self.N_species'
        for p_ in params(f0):
            if p_ in ('species_idx', 'species_index'):
                minor[p_] = 'self.N_species'
        for x in ast.walk(f):
            e = pmatch('$$major * $$radix + $s', x) if isinstance(x, ast.BinOp) else None
            if e and e['$s'] in minor:
                n += 1
                rep.instance('GEOM-radix', {'function': q, 'expr': unparse(x)})
                if unparse(e['$$radix']) != minor[e['$s']] and \
                        unparse(e['$$major']) != minor[e['$s']]:
                    rep.violation('GEOM-radix', m, q, 'radix:' + unparse(x)[:40],
                                  '`%s`: the minor index `%s` runs over %s values, so the major '
                                  'index must be multiplied by %s (as in simple_u_to_species_u), '
                                  'not by `%s`: different (simple site, species) pairs collide / '
                                  'indices leave the unit cell' %
                                  (unparse(x), e['$s'], minor[e['$s']], minor[e['$s']],
                                   unparse(e['$$radix'])), x.lineno)
    return n


def run(prog, rep, tier):
    rep.rule('GEOM-neighbors', 'for every lattice class with literal basis / positions / pair '
             'lists: all pairs of a category have one Euclidean length, category k is the k-th '
             'smallest distinct distance, the list is complete per unit cell up to '
             '(u1,u2,dx) ~ (u2,u1,-dx) and free of duplicates (closed computation on the literal '
             'tables with a whitelisted constant folder)')
    rep.rule('GEOM-override-pairs / ordering / index-maps', 'inverse-pair methods are overridden '
             'together; ordering falls through; order setter recomputes the inverse permutation')
    rep.rule('GEOM-stale-mask', 'a mask derived from an array is not applied to that array after '
             'an in-place update of it (def-store-use path on the CFG)')
    rep.rule('GEOM-radix', 'mixed-radix index combinations use the range of the minor index')
    n = check_geometry(prog, rep)
    check_override_pairs(prog, rep)
    check_index_maps(prog, rep)
    if check_stale_masks(prog, rep) < 4:
        raise AnalysisError('GEOM-stale-mask: the mask uses of possible_couplings were not found')
    if check_radix(prog, rep) < 5:
        raise AnalysisError('GEOM-radix: the species index combinations were not found')
    rep.floor('GEOM-neighbors', 20)
    rep.assumptions += [
        'NLegLadder is excluded: nearest_neighbors = rung_NN + leg_NN is topological by '
        'documentation (positions are squeezed to unit height for plotting)',
        'MultiSpeciesLattice / IrregularLattice / HelicalLattice derive their pairs at run time',
        'bijectivity of index maps and exactness of possible_couplings are NOT decided']
    return rep.finish(
        level='other',
        explanation='Neighbour tables of %d (lattice, category) pairs checked against the '
        'Euclidean geometry computed from the literal basis and unit-cell positions; override '
        'pairing of the index-map methods.' % n,
        proof={'obligations': n, 'discharged': n - sum(
            1 for f in rep.findings if f.rule == 'GEOM-neighbors'), 'exhaustive': True})
