"""C02 — storage invariants: cached-claim typestate (R-FLAG-Q, R-FLAG-L), coupled updates
(R-COUPLED/Array). Charge bookkeeping (R-CHARGE) lives in sa/charge.py and is reported here for
the total-charge clause. Block values are not decided."""
import ast

from ..cfg import CFG
from ..pattern import find, pmatch
from ..core import (kwarg, params, phase_helpers, AnalysisError, assigned_targets, body_nodes, call_name, dotted, is_self_attr,
                    key_text, names_in, parent, root_name, stmts_of, unparse)

NPC = 'tenpy/linalg/np_conserved.py'
CH = 'tenpy/linalg/charges.py'
SPARSE = 'tenpy/linalg/sparse.py'
CACHE = 'tenpy/tools/cache.py'
PYX = 'tenpy/linalg/_npc_helper.pyx'

# functions that store _qdata without re-stating the flag, each with the reason why the row order
# (or the truth of the retained flag) is preserved -- confirmed by reading
ORDER_PRESERVING = {
    (NPC, 'Array.copy'): 'copy of the same rows; flag copied with the state',
    (NPC, 'Array.take_slice'): 'row filter + dropping columns that are constant on the kept rows',
    (NPC, 'Array.squeeze'): 'dropped legs have a single block (constant column)',
    (NPC, 'Array.add_trivial_leg'): 'inserts a zero column',
    (NPC, 'Array.iproject'): 'monotone relabelling of one column + row filter',
    (NPC, 'Array.ipurge_zeros'): 'row filter',
    (NPC, 'Array.ibinary_blockwise'): 'merge of two lists sorted by isort_qdata() just before',
    (NPC, 'Array.astype'): 'copy of the same rows',
    (NPC, 'Array.scale_axis'): 'copy of the same rows',
    (NPC, 'Array.split_legs'): 'single-block path: one row',
    (NPC, 'diag'): 'rows [[0,0],[1,1],...] ascending; flag True from Array.__init__',
    (NPC, 'speigs'): 'one row',
    (SPARSE, 'FlatLinearOperator.flat_to_npc'): 'rows [[i,i]] ascending (flag True from the '
                                                'constructor) / single compact row',
    (PYX, 'Array_iadd_prefactor_other'): 'merge of two block lists sorted by isort_qdata() just '
                                         'before (flag True set there)',
    (CACHE, '_NpcArrayStorage.load'): 'the same rows round-trip through the file; flag kept on '
                                      'the retained shallow copy',
    (CACHE, '_NpcArrayStorage.save'): 'rows removed from the retained copy only while on disk',
}

# functions allowed to state `_qdata_sorted = True`, with the witness kind
TRUE_CLAIMS = {
    (NPC, 'Array.__init__'): 'empty',
    (NPC, 'Array.from_ndarray_trivial'): 'one-row',
    (NPC, 'Array.from_ndarray'): 'axiom: rows appended in the order of _iter_all_blocks()',
    (NPC, 'Array.from_func'): 'axiom: rows selected from _iter_all_blocks() order',
    (NPC, 'Array.zeros_like'): 'empty',
    (NPC, 'Array.isort_qdata'): 'lexsort',
    (NPC, 'Array.combine_legs'): 'one-row',
    (NPC, 'Array.iscale_prefactor'): 'empty',
    (NPC, 'tensordot'): 'one-row',
    (NPC, 'orthogonal_columns'): 'axiom: both columns ascending by construction',
    (NPC, '_combine_legs_worker'): 'lexsort',
    (NPC, '_tensordot_worker'): 'axiom: column-major emission over sorted keep-indices',
    (SPARSE, 'FlatLinearOperator.flat_to_npc'): 'axiom: compact storage is a single row',
    (PYX, 'Array_iscale_prefactor'): 'empty',
    (PYX, '_combine_legs_worker'): 'lexsort',
    (PYX, '_tensordot_worker'): 'axiom: column-major emission over sorted keep-indices',
}


def _attr_of(t, attr):
    """root name if t is `X.attr` or `X.attr[...]`, else None; second value: is subscript"""
    sub = False
    while isinstance(t, ast.Subscript):
        t = t.value
        sub = True
    if isinstance(t, ast.Attribute) and t.attr == attr and isinstance(t.value, ast.Name):
        return t.value.id, sub
    return None, sub


def check_flag_q(prog, rep, modules=(NPC, SPARSE, CACHE), mods=None):
    for m in (mods if mods is not None else [prog.module(r) for r in modules]):
        rel = m.relpath
        if hasattr(m, 'tree') and hasattr(m, 'classes') and mods is None:
            rep.unit(m)
        for q, f in m.functions.items():
            qstores = []
            fstores = []
            for st in stmts_of(f):
                for t in assigned_targets(st):
                    x, sub = _attr_of(t, '_qdata')
                    if x is not None and not isinstance(st, (ast.For, ast.With)):
                        qstores.append((st, x))
                    x2, _ = _attr_of(t, '_qdata_sorted')
                    if x2 is not None:
                        fstores.append((st, x2))
            if not qstores and not fstores:
                continue
            key = (rel, q)
            if f.name.startswith('_') and not f.name.startswith('__') and \
                    f.name not in _referenced_names(prog):
                rep.note('%s:%s stores _qdata but is referenced nowhere in the package (dead code): '
                         'listed, not checked' % (rel, q))
                continue
            # ---- literal True claims
            for st, x in fstores:
                val = getattr(st, 'value', None)
                if isinstance(val, ast.Constant) and val.value is True:
                    rep.instance('FLAG-Q-true-claim', {'function': q, 'store': key_text(st),
                                                       'witness': TRUE_CLAIMS.get(key)})
                    w = TRUE_CLAIMS.get(key)
                    if w is None:
                        rep.violation('FLAG-Q-true-claim', m, q, 'unproven-sorted-claim',
                                      '`%s`: this function is not known to produce lexsorted '
                                      'block indices; a false claim makes later additions / '
                                      'contractions pair the wrong blocks' % key_text(st),
                                      st.lineno)
                        continue
                    _check_witness(rep, m, q, f, st, x, w)
            # ---- flags inherited from operands must cover every operand whose rows are used
            _check_flag_inherit(rep, m, q, f, qstores, fstores)
            if not qstores:
                continue
            if key in ORDER_PRESERVING:
                rep.instance('FLAG-Q-reset', {'function': q, 'table': ORDER_PRESERVING[key]},
                             nontrivial=False)
                continue
            # ---- dataflow: at normal exit no X may be DIRTY
            cfg = CFG(f)
            qs = {}
            for st, x in qstores:
                qs.setdefault(id(st), set()).add(x)
            fs = {}
            for st, x in fstores:
                val = getattr(st, 'value', None)
                isfalse = isinstance(val, ast.Constant) and val.value is False
                fs.setdefault(id(st), {})[x] = isfalse

            def transfer(n, state):
                if n.stmt is None:
                    return state
                s = dict(state)
                sid = id(n.stmt)
                if sid in qs:
                    for x in qs[sid]:
                        status, isf = s.get(x, ('OK', False))
                        if not isf:
                            s[x] = ('DIRTY', False)
                if sid in fs:
                    for x, isfalse in fs[sid].items():
                        s[x] = ('OK', isfalse)
                return s

            def join(a, b):
                r = {}
                for x in set(a) | set(b):
                    sa, fa = a.get(x, ('OK', False))
                    sb, fb = b.get(x, ('OK', False))
                    r[x] = ('DIRTY' if 'DIRTY' in (sa, sb) else 'OK', fa and fb)
                return r

            sin, sout = cfg.forward({}, transfer, join)
            final = sin.get(cfg.exit.id, {})
            for st, x in qstores:
                rep.instance('FLAG-Q-reset', {'function': q, 'store': key_text(st)})
            for x, (status, _) in sorted(final.items()):
                if status == 'DIRTY':
                    sts = [st for st, xx in qstores if xx == x]
                    rep.violation('FLAG-Q-reset', m, q, 'qdata-written-flag-stale:' + x,
                                  'a path through %s writes `%s._qdata` (%s) and returns without '
                                  'writing `%s._qdata_sorted`: the cached claim "block indices '
                                  'are lexsorted" may be stale; the binary merge in '
                                  'ibinary_blockwise / inner trusts it' %
                                  (q, x, key_text(sts[0]), x), sts[0].lineno)


def _check_flag_inherit(rep, m, q, f, qstores, fstores):
    from ..core import local_defs
    defs = local_defs(f)

    def operands_of(expr, attr):
        """names P such that `P.<attr>` flows into expr (through local definitions)"""
        out = set()
        seen = set()
        todo = [expr]
        while todo:
            e = todo.pop()
            for n in ast.walk(e):
                if isinstance(n, ast.Attribute) and n.attr == attr and isinstance(
                        n.value, ast.Name):
                    out.add(n.value.id)
                elif isinstance(n, ast.Name) and n.id not in seen:
                    seen.add(n.id)
                    todo.extend(defs.get(n.id, []))
        return out

    for st, x in fstores:
        val = getattr(st, 'value', None)
        if val is None or isinstance(val, ast.Constant) or not isinstance(st, ast.Assign):
            continue
        flag_ops = operands_of(val, '_qdata_sorted')
        if not flag_ops:
            continue  # computed (np.all(...), loaded, ...)
        data_ops = set()
        for st2, x2 in qstores:
            if x2 == x and isinstance(st2, ast.Assign) and not isinstance(
                    st2.targets[0], ast.Subscript):
                data_ops |= operands_of(st2.value, '_qdata')
        data_ops.discard(x)
        rep.instance('FLAG-Q-inherit', {'function': q, 'store': key_text(st),
                                        'rows_from': sorted(data_ops),
                                        'flag_from': sorted(flag_ops)})
        missing = data_ops - flag_ops
        if missing:
            rep.violation('FLAG-Q-inherit', m, q, 'flag-ignores-operand:' + ','.join(sorted(missing)),
                          '`%s`: the block indices of `%s` are built from the rows of %s, but the '
                          'sortedness claim only consults %s: if `%s._qdata` is not sorted the '
                          'result claims sorted indices that are not' %
                          (key_text(st), x, sorted(data_ops), sorted(flag_ops),
                           sorted(missing)[0]), st.lineno)


_REF = {}


def _referenced_names(prog):
    """all attribute / name identifiers used (loaded) anywhere in the package"""
    if 'names' not in _REF:
        names = set()
        for mod in prog.all_modules():
            for n in ast.walk(mod.tree):
                if isinstance(n, ast.Attribute):
                    names.add(n.attr)
                elif isinstance(n, ast.Name):
                    names.add(n.id)
                elif isinstance(n, ast.Constant) and isinstance(n.value, str) and \
                        n.value.isidentifier():
                    names.add(n.value)
        _REF['names'] = names
    return _REF['names']


def _check_witness(rep, m, q, f, st, x, w):
    src = unparse(f)
    qst = [s for s in stmts_of(f) if isinstance(s, ast.Assign) and any(
        _attr_of(t, '_qdata')[0] == x and not _attr_of(t, '_qdata')[1] for t in s.targets)]
    ok = True
    if w == 'empty':
        ok = any('np.empty((0,' in unparse(s.value) for s in qst) or not qst
    elif w == 'one-row':
        # the stored array has exactly one row by construction
        ok = False
        for s in qst:
            v = unparse(s.value)
            names = [v]
            if isinstance(s.value, ast.Name):
                for s2 in stmts_of(f):
                    if isinstance(s2, ast.Assign) and unparse(s2.targets[0]) == s.value.id:
                        names.append(unparse(s2.value))
            if any(('((1,' in t or '([1,' in t or '(1, ' in t) and
                   ('np.empty' in t or 'np.zeros' in t) for t in names):
                ok = True
    elif w == 'lexsort':
        ok = 'np.lexsort(' in src
        if ok:
            # the permutation must be applied to the rows that are stored
            perm = None
            for s in stmts_of(f):
                if isinstance(s, ast.Assign) and isinstance(s.value, ast.Call) and \
                        dotted(s.value.func) == 'np.lexsort':
                    perm = unparse(s.targets[0])
                    arg = unparse(s.value.args[0])
            ok = perm is not None and arg.endswith('.T') and any(
                isinstance(s, ast.Assign) and ('[%s' % perm) in unparse(s.value)
                for s in stmts_of(f))
    if not ok:
        rep.violation('FLAG-Q-true-claim', m, q, 'witness-missing:' + w,
                      '`%s` claims sorted block indices but the witness (%s) is no longer '
                      'derivable in this function' % (key_text(st), w), st.lineno)


# ----------------------------------------------------------------------------------------------
# LegCharge flags

# transforms that need not re-state a flag, with reason
KEEP_SORTED = {
    (CH, 'LegCharge.bunch'): 'removes adjacent duplicate rows: order preserved',
    (CH, 'LegCharge.project'): 'row subsequence: order preserved',
}
KEEP_BUNCHED = {
    (CH, 'LegCharge.flip_charges_qconj'): 'negation is injective on rows: adjacent rows stay '
                                          'different',
    (CH, 'LegPipe.outer_conj'): 'negation is injective on rows',
    (NPC, 'qr'): 'shift by a constant / negation are injective on rows',
}
# functions writing the charges of the object under construction/restoration (flags set with it)
CONSTRUCTORS = {'__init__', '__setstate__', 'from_hdf5', '_set_charges', '_set_slices',
                '_set_block_sizes',
                '_init_from_legs',  # body of LegPipe.__init__: flags start False there
                }


def check_flag_l(prog, rep, prop='C02'):
    for rel in (CH, NPC):
        m = prog.module(rel)
        rep.unit(m)
        ctor_helpers = phase_helpers(m, CONSTRUCTORS)   # e.g. a helper extracted from __init__
        for q, f in m.functions.items():
            if f.name in CONSTRUCTORS or f.name in ctor_helpers:
                continue
            writes = []  # (stmt, X)
            for st in stmts_of(f):
                for t in assigned_targets(st):
                    if isinstance(t, ast.Attribute) and t.attr == 'charges' and isinstance(
                            t.value, ast.Name) and isinstance(st, ast.Assign):
                        writes.append((st, t.value.id))
                for c in ([st.value] if isinstance(st, ast.Expr) else []):
                    if isinstance(c, ast.Call) and isinstance(c.func, ast.Attribute) and \
                            c.func.attr == '_set_charges' and isinstance(c.func.value, ast.Name):
                        writes.append((st, c.func.value.id))
            if not writes:
                continue
            cfg = CFG(f)
            key = (rel, q)
            for st, x in writes:
                for flag, keep in (('sorted', KEEP_SORTED), ('bunched', KEEP_BUNCHED)):
                    rep.instance('FLAG-L-reset', {'function': q, 'write': key_text(st),
                                                  'flag': flag, 'table': keep.get(key)},
                                 nontrivial=key not in keep)
                    if key in keep:
                        continue

                    def is_flag(n, x=x, flag=flag):
                        s = n.stmt
                        if s is None or isinstance(s, (ast.If, ast.For, ast.While)):
                            return False
                        for t in assigned_targets(s):
                            if isinstance(t, ast.Attribute) and t.attr == flag and isinstance(
                                    t.value, ast.Name) and t.value.id == x:
                                return True
                        return False
                    if cfg.exit_reachable_avoiding(st, is_flag):
                        rep.violation(
                            'FLAG-L-reset', m, q, 'charges-written-%s-stale:%s' % (flag, x),
                            '%s rewrites the charges of `%s` (%s) — a copy that inherited its '
                            'flags — and returns without re-stating `%s.%s`: the leg may claim '
                            'to be %s when it is not; LegCharge.sort()/bunch() and the pipe '
                            'construction trust the claim' %
                            (q, x, key_text(st), x, flag, flag), st.lineno)
    # a row sub-selection of the charges can make equal rows adjacent: `bunched` is not inherited
    for rel in (CH, NPC):
        m = prog.module(rel)
        for q, f in m.functions.items():
            sel = {}
            for c in body_nodes(f):
                e = None
                if isinstance(c, ast.Call):
                    e = pmatch('$x._set_charges($$y.charges[$$k])', c)
                if isinstance(c, ast.Assign):
                    e = pmatch('$x.charges = $$y.charges[$$k]', c)
                if e and not isinstance(e['$$k'], ast.Slice):
                    sel[e['$x']] = c
            for x, c in sel.items():
                for st in stmts_of(f):
                    if isinstance(st, ast.Assign) and unparse(st.targets[0]) == x + '.bunched':
                        inh = any(isinstance(a, ast.Attribute) and a.attr == 'bunched'
                                  for a in ast.walk(st.value))
                        rep.instance('FLAG-L-inherit', {'function': q, 'selection': unparse(c)[:60],
                                                        'claim': key_text(st), 'inherits': inh})
                        if inh:
                            rep.violation('FLAG-L-inherit', m, q, 'bunched-inherited:' + x,
                                          '`%s` keeps only some rows of the charges (`%s`); rows '
                                          'that were separated by a removed block may now be '
                                          'adjacent and equal, so `%s` cannot inherit the old '
                                          '`bunched` claim (only is_blocked() proves it)' %
                                          (q, unparse(c)[:60], key_text(st)), st.lineno)
    # literal True claims need a witness in the same function
    for rel in (CH, NPC):
        m = prog.module(rel)
        for q, f in m.functions.items():
            for st in stmts_of(f):
                if not isinstance(st, ast.Assign):
                    continue
                for t in st.targets:
                    if isinstance(t, ast.Attribute) and t.attr in ('sorted', 'bunched') and \
                            isinstance(st.value, ast.Constant) and st.value.value is True:
                        rep.instance('FLAG-L-true-claim', {'function': q, 'store': key_text(st)})
                        src = unparse(f)
                        g = parent(st)
                        if isinstance(g, ast.If) and 'block_number' in unparse(g.test):
                            continue  # witness: at most one block
                        if t.attr == 'sorted':
                            ok = False
                            # charges sorted by a lexsort of the charges themselves
                            for s2 in stmts_of(f):
                                if isinstance(s2, ast.Assign) and isinstance(s2.value, ast.Call) \
                                        and call_name(s2.value) == 'lexsort' and \
                                        'charges' in unparse(s2.value.args[0]):
                                    ok = True
                        else:
                            ok = '_find_row_differences' in src or 'LegCharge.bunch(' in src or \
                                '.bunch()' in src
                        if not ok:
                            rep.violation(
                                'FLAG-L-true-claim', m, q, 'unproven-%s-claim' % t.attr,
                                '`%s` claims the leg is %s, but nothing in %s establishes it '
                                '(no lexsort of the charges / no row-difference bunching): '
                                'sort()/bunch() return the leg unchanged trusting the claim' %
                                (key_text(st), t.attr, q), st.lineno)


# ----------------------------------------------------------------------------------------------
# coupled updates on Array

LENGTH_PRESERVING_LEG_TRANSFORMS = ('conj', 'to_LegCharge', 'flip_charges_qconj',
                                    'apply_charge_mapping', 'from_qind', 'from_drop_charge',
                                    'from_change_charge', 'from_add_charge', 'bunch', 'sort',
                                    'copy')


def check_coupled_array(prog, rep):
    m = prog.module(NPC)
    for q, f in m.functions.items():
        # (ii) chinfo rebinding must come with legs and qtotal
        for st in stmts_of(f):
            if not isinstance(st, ast.Assign):
                continue
            for t in st.targets:
                if isinstance(t, ast.Attribute) and t.attr == 'chinfo' and isinstance(
                        t.value, ast.Name) and f.name not in ('__init__', '__setstate__',
                                                              'from_hdf5'):
                    x = t.value.id
                    rep.instance('COUPLED-chinfo', {'function': q, 'store': key_text(st)})
                    have = set()
                    for s2 in stmts_of(f):
                        for t2 in assigned_targets(s2):
                            if isinstance(t2, ast.Attribute) and isinstance(
                                    t2.value, ast.Name) and t2.value.id == x:
                                have.add(t2.attr)
                    for need in ('legs', 'qtotal'):
                        if need not in have:
                            rep.violation(
                                'COUPLED-chinfo', m, q, 'chinfo-without-' + need,
                                '%s rebinds `%s.chinfo` but not `%s.%s`: the total charge / legs '
                                'still belong to the old ChargeInfo (e.g. a total charge outside '
                                'the new modulus fails test_sanity or silently mismatches all '
                                'blocks)' % (q, x, x, need), st.lineno)
        # (i) replacing the list of legs by one of different length needs _set_shape
        for st in stmts_of(f):
            if not isinstance(st, ast.Assign):
                continue
            for t in st.targets:
                x = None
                whole = False
                if isinstance(t, ast.Attribute) and t.attr == 'legs' and isinstance(
                        t.value, ast.Name):
                    x, whole = t.value.id, True
                elif isinstance(t, ast.Subscript) and isinstance(t.value, ast.Attribute) and \
                        t.value.attr == 'legs' and isinstance(t.value.value, ast.Name):
                    x = t.value.value.id
                if x is None or f.name in ('__setstate__', 'from_hdf5', '__init__'):
                    continue
                v = st.value
                # element-wise transforms keep every ind_len
                elementwise = False
                if isinstance(v, ast.ListComp) and isinstance(v.elt, ast.Call) and \
                        call_name(v.elt) in LENGTH_PRESERVING_LEG_TRANSFORMS:
                    elementwise = True
                if not whole and isinstance(v, (ast.Call, ast.Subscript)):
                    cn = call_name(v) if isinstance(v, ast.Call) else call_name(
                        v.value) if isinstance(v.value, ast.Call) else None
                    if cn in LENGTH_PRESERVING_LEG_TRANSFORMS:
                        elementwise = True
                if isinstance(t, ast.Subscript) and isinstance(v, ast.Name):
                    # single leg replaced by a computed leg: length may change (project, extend)
                    pass
                rep.instance('COUPLED-shape', {'function': q, 'store': key_text(st)},
                             nontrivial=not elementwise)
                if elementwise:
                    continue
                cfg = CFG(f)

                def sets_shape(n, x=x):
                    s = n.stmt
                    if s is None or isinstance(s, (ast.If, ast.For, ast.While)):
                        return False
                    for c in ast.walk(s):
                        if isinstance(c, ast.Call) and isinstance(c.func, ast.Attribute) and \
                                isinstance(c.func.value, ast.Name) and c.func.value.id == x and \
                                c.func.attr in ('_set_shape', 'test_sanity', 'combine_legs',
                                                'iproject'):
                            return c.func.attr == '_set_shape'
                    return False
                if cfg.exit_reachable_avoiding(st, sets_shape) and not _same_len_known(f, st):
                    rep.violation('COUPLED-shape', m, q, 'legs-without-set_shape:' + x,
                                  '`%s` changes the legs of `%s` but no `%s._set_shape()` follows '
                                  'on some path: shape/rank disagree with the legs' %
                                  (key_text(st), x, x), st.lineno)


def check_rank_change(prog, rep):
    """a slice assignment into X.legs changes the rank: the block-index array must be rebuilt"""
    m = prog.module(NPC)
    for q, f in m.functions.items():
        for st in stmts_of(f):
            if not isinstance(st, ast.Assign):
                continue
            t = st.targets[0]
            if isinstance(t, ast.Subscript) and isinstance(t.slice, ast.Slice) and isinstance(
                    t.value, ast.Attribute) and t.value.attr == 'legs' and isinstance(
                        t.value.value, ast.Name):
                x = t.value.value.id
                rep.instance('COUPLED-rank', {'function': q, 'store': key_text(st)})
                cfg = CFG(f)

                def sets_qdata(n, x=x):
                    s = n.stmt
                    if s is None or isinstance(s, (ast.If, ast.For, ast.While)):
                        return False
                    for tt in assigned_targets(s):
                        if _attr_of(tt, '_qdata')[0] == x and not _attr_of(tt, '_qdata')[1]:
                            return True
                    return False
                if cfg.exit_reachable_avoiding(st, sets_qdata):
                    rep.violation('COUPLED-rank', m, q, 'rank-changed-qdata-kept:' + x,
                                  '`%s` replaces one leg of `%s` by several (the rank changes) but '
                                  'on some path `%s._qdata` keeps its old number of columns: the '
                                  'result fails its own sanity check (_qdata shape wrong)' %
                                  (key_text(st), x, x), st.lineno)


def _same_len_known(f, st):
    """table of leg replacements that keep ind_len (reason: same slices / same index set)"""
    t = key_text(st)
    keep = ('from_qind(chinfo, self.legs[ax].slices', '.to_LegCharge()', 'legs[axis1], legs[axis2]',
            'res.legs[axis] = newleg', 'res.legs[axis] = LegCharge.from_qind',
            'resv.legs[1] = resv.legs[1].to_LegCharge()', 'cp.legs[li] = new_leg',
            'cp.legs[ax] = pipe.to_LegCharge()')
    return any(k in t for k in keep)


def run(prog, rep, tier):
    from ..charge import check_charge_c02
    rep.rule('FLAG-Q-reset', 'forward dataflow per function: a write to X._qdata leaves X DIRTY '
             'unless the last flag store was literal False; a store to X._qdata_sorted cleans it; '
             'no X may be DIRTY at a normal exit (table of order-preserving functions with reasons)')
    rep.rule('FLAG-Q-true-claim', 'a literal True needs a witness derivable in the function '
             '(empty / one row / lexsort applied) or an axiom-table entry')
    rep.rule('FLAG-L-*', 'a rewrite of the charges of a copied leg must be followed by stores of '
             'sorted and bunched (tables of flag-preserving transforms); literal True needs a '
             'witness')
    rep.rule('COUPLED-*', 'chinfo is rebound only together with legs and qtotal; a changed leg '
             'list is followed by _set_shape()')
    rep.rule('CHARGE-*', 'symbolic charge bookkeeping: see sa/charge.py')
    check_flag_q(prog, rep)
    from ..pyx import load_pyx
    pyx = load_pyx(prog)
    rep.units[PYX] = pyx.digest
    check_flag_q(prog, rep, mods=[pyx])
    check_flag_l(prog, rep)
    check_coupled_array(prog, rep)
    from .c03 import check_benign_rebind
    rep.rule('OWN-benign-rebind', 'isort_qdata / _imake_contiguous re-bind _qdata / _data and never '
             'permute the shared storage in place')
    check_benign_rebind(prog, rep)
    rep.rule('DTYPE-block-ctor', 'blocks created with numpy constructors for a tensor declared with '
             'dtype D carry dtype=D')
    if check_block_ctor_dtype(prog, rep) < 2:
        raise AnalysisError('DTYPE-block-ctor: identity blocks of _svd_worker not found')
    rep.rule('QDATA-contiguous / INDEX-rank', 'column selections re-bound to _qdata are made '
             'C-contiguous; add_leg indexes the extended tensor with rank + 1 entries')
    if check_qdata_contiguous(prog, rep) < 4:
        raise AnalysisError('QDATA-contiguous: fewer than 4 wrapped column selections / add_leg')
    rep.rule('DTYPE-wrapped-block', 'a tensor wrapping a piece of a numpy array as its block declares '
             'the dtype of that array')
    if check_wrapped_block_dtype(prog, rep) < 1:
        raise AnalysisError('DTYPE-wrapped-block: the eigenvector wrapping of speigs not found')
    rep.rule('CHARGE-valid-compare', 'block charges are compared with valid total charges only')
    if check_valid_compare(prog, rep) < 1:
        raise AnalysisError('CHARGE-valid-compare: comparison in from_ndarray not found')
    rep.rule('DTYPE-block-store', 'blocks stored into a result tensor with a declared dtype are cast '
             'to it')
    if check_block_store_dtype(prog, rep) < 2:
        raise AnalysisError('DTYPE-block-store: block stores of expm / _eig_worker not found')
    rep.rule('COUPLED-shared-list', 'the list _data, shared with shallow copies, never changes its '
             'length in place (only by re-binding, like _qdata)')
    if check_shared_data_list(prog, rep) < 20:
        raise AnalysisError('COUPLED-shared-list: fewer than 20 Array methods touch _data')
    check_rank_change(prog, rep)
    n_ob, n_dis = check_charge_c02(prog, rep)
    rep.rule('DTYPE-blocks', 'the dtype claim of an Array is not re-stated from a single block '
             'unless all blocks come from one uniform map')
    if check_dtype_blocks(prog, rep) < 3:
        raise AnalysisError('DTYPE-blocks: dtype claims in Array methods not found')
    rep.floor('FLAG-Q-reset', 25)
    rep.floor('FLAG-Q-true-claim', 12)
    rep.floor('FLAG-L-reset', 12)
    rep.floor('COUPLED-shape', 8)
    rep.assumptions += ['block values are NOT decided',
                        'sortedness axioms listed in TRUE_CLAIMS are trusted']
    from ..flow import check_undefined_attrs
    rep.rule('ATTR-defined', 'every self.X read names an attribute bound somewhere in the class family')
    check_undefined_attrs(prog, rep, ['tenpy/linalg/charges.py', 'tenpy/linalg/np_conserved.py'])
    return rep.finish(
        level='other',
        explanation='Cached-claim typestate for Array._qdata_sorted and LegCharge.sorted/bunched, '
        'coupled updates of Array fields, and symbolic total-charge bookkeeping (%d obligations, '
        '%d discharged) decided on the current source of np_conserved.py / charges.py.' %
        (n_ob, n_dis), proof={'obligations': max(n_ob, 1), 'discharged': n_dis})


# ------------------------------------------------------------------ DTYPE-blocks
def check_dtype_blocks(prog, rep):
    """DTYPE-blocks: `Array.dtype` is a claim about EVERY stored block. A method that re-states it
    from a single block (`self._data[k].dtype`) is only right when all blocks were produced by one
    uniform map in that method (`self._data = [f(b) for b in self._data]`); where blocks come from
    different sources (both operands of a binary operation, kept and new blocks), the dtype has to
    be promoted over all of them and the blocks cast to it."""
    m = prog.module(NPC)
    n = 0
    for q, f in m.functions.items():
        if not q.startswith('Array.'):
            continue
        for st in stmts_of(f):
            if not (isinstance(st, ast.Assign) and any(is_self_attr(t, 'dtype')
                                                      for t in st.targets)):
                continue
            single = [x for x in ast.walk(st.value) if isinstance(x, ast.Attribute) and
                      x.attr == 'dtype' and isinstance(x.value, ast.Subscript) and
                      is_self_attr(x.value.value, '_data') and
                      isinstance(x.value.slice, (ast.Constant, ast.UnaryOp))]
            n += 1
            if not single:
                rep.instance('DTYPE-blocks', {'function': q, 'claim': key_text(st)[:70],
                                              'from_single_block': False})
                continue
            producers = [s2 for s2 in stmts_of(f) if isinstance(s2, ast.Assign) and any(
                is_self_attr(t, '_data') for t in s2.targets)]
            other = [c for c in body_nodes(f) if isinstance(c, ast.Call) and isinstance(
                c.func, ast.Attribute) and is_self_attr(c.func.value, '_data') and
                c.func.attr in ('append', 'extend', 'insert')] + [
                s2 for s2 in stmts_of(f) if isinstance(s2, ast.Assign) and any(
                    isinstance(t, ast.Subscript) and is_self_attr(t.value, '_data')
                    for t in s2.targets)]
            uniform = bool(producers) and not other and all(
                isinstance(p_.value, ast.ListComp) and len(p_.value.generators) == 1 and
                is_self_attr(p_.value.generators[0].iter, '_data') for p_ in producers)
            rep.instance('DTYPE-blocks', {'function': q, 'claim': key_text(st)[:70],
                                          'from_single_block': True, 'uniform_map': uniform})
            if not uniform:
                rep.violation('DTYPE-blocks', m, q, 'single-block-dtype',
                              '`%s` takes the dtype of the whole tensor from one block, but the '
                              'blocks of %s come from different sources (%d producing '
                              'statements): a block kept from one operand can have another '
                              'dtype than the claim' % (key_text(st)[:60], q,
                                                        len(producers) + len(other)), st.lineno)
    return n


# ------------------------------------------------------------------ COUPLED-shared-list
def check_shared_data_list(prog, rep):
    """COUPLED-shared-list: `_data` (list of blocks) and `_qdata` (one row per block) are coupled,
    and a shallow copy (copy(deep=False), replace_label, gauge_total_charge, ...) shares the LIST
    `_data` while `_qdata` is an array that can only be re-bound. A method that changes the length
    of `self._data` in place (append / insert / pop / extend / remove / del) therefore leaves every
    shallow copy with more (fewer) blocks than rows: lengths change by re-binding only."""
    m = prog.module(NPC)
    ct = prog.classtable()
    ci = ct.get('Array')
    grow = ('append', 'insert', 'pop', 'extend', 'remove', 'clear')

    def scan(f):
        out = []
        for x in ast.walk(f):
            if isinstance(x, ast.Call) and isinstance(x.func, ast.Attribute) and \
                    x.func.attr in grow and unparse(x.func.value) == 'self._data':
                out.append(x)
            if isinstance(x, ast.Delete) and any(
                    isinstance(t, ast.Subscript) and unparse(t.value) == 'self._data'
                    for t in x.targets):
                out.append(x)
            if isinstance(x, ast.AugAssign) and unparse(x.target) == 'self._data':
                out.append(x)
        return out
    fx = ast.parse("def get_block(self, q):\n    self._data.append(q)\n"
                   "    self._qdata = np.append(self._qdata, [q], axis=0)\n").body[0]
    rep.control('COUPLED-shared-list', len(scan(fx)) == 1)
    n = 0
    for name, f in ci.methods.items():
        if '_data' not in unparse(f):
            continue
        n += 1
        for x in scan(f):
            rep.violation('COUPLED-shared-list', m, 'Array.' + name, 'inplace-length:_data',
                          '`%s` changes the length of the list self._data in place; shallow copies '
                          'share that list but not _qdata, so they are left with a different '
                          'number of blocks than rows of _qdata (test_sanity fails on the copy / '
                          'the source)' % key_text(x)[:60], x.lineno)
    rep.instance('COUPLED-shared-list', {'methods_of_Array_touching__data': n})
    return n


# ------------------------------------------------------------------ DTYPE-block-ctor
def check_block_ctor_dtype(prog, rep):
    """DTYPE-block-ctor: a block created with a numpy constructor (np.eye / zeros / ones / empty /
    identity / full) and put into the data list of a tensor declared with dtype D must be created
    with `dtype=D`: the numpy default float64 makes the tensor claim D while holding float64 blocks
    (its own test_sanity fails for complex / integer D). Checked where the list that becomes
    `X._data` and the constructor `Array(legs, D, ..)` of X are in the same function."""
    m = prog.module(NPC)
    ctors = ('eye', 'zeros', 'ones', 'empty', 'identity', 'full')
    n = 0
    for q, f in m.functions.items():
        arrays = {}     # name -> dtype text
        for st in ast.walk(f):
            if isinstance(st, ast.Assign) and isinstance(st.targets[0], ast.Name) and isinstance(
                    st.value, ast.Call) and call_name(st.value) == 'Array' and \
                    len(st.value.args) >= 2:
                arrays[st.targets[0].id] = unparse(st.value.args[1])
        if not arrays:
            continue
        lists = {}      # list name -> dtype text
        for st in ast.walk(f):
            if isinstance(st, ast.Assign) and isinstance(st.targets[0], ast.Attribute) and \
                    st.targets[0].attr == '_data' and isinstance(st.targets[0].value, ast.Name) and \
                    st.targets[0].value.id in arrays and isinstance(st.value, ast.Name):
                lists[st.value.id] = arrays[st.targets[0].value.id]
        for c in ast.walk(f):
            if not (isinstance(c, ast.Call) and isinstance(c.func, ast.Attribute) and
                    c.func.attr in ('append', 'insert') and isinstance(c.func.value, ast.Name) and
                    c.func.value.id in lists and c.args):
                continue
            e = c.args[-1]
            if not (isinstance(e, ast.Call) and unparse(e.func) in ['np.' + k for k in ctors]):
                continue
            n += 1
            want = lists[c.func.value.id]
            got = None
            for k in e.keywords:
                if k.arg == 'dtype':
                    got = unparse(k.value)
            rep.instance('DTYPE-block-ctor', {'function': q, 'block': unparse(e)[:60],
                                              'declared': want, 'dtype': got})
            if got != want:
                rep.violation('DTYPE-block-ctor', m, q, 'block-dtype:' + c.func.value.id,
                              '`%s` creates a block with dtype %s for a tensor declared with dtype '
                              '`%s`: the tensor claims `%s` but holds a block of another type'
                              % (unparse(e)[:60], got or 'float64 (numpy default)', want, want),
                              e.lineno)
    return n


# ------------------------------------------------------------------ QDATA-contiguous / INDEX-rank
def check_qdata_contiguous(prog, rep):
    """QDATA-contiguous: `_qdata` is required C-contiguous (test_sanity; the compiled kernels read it
    as `mode='c'`). Selecting or permuting COLUMNS with an index list / array (`q[:, idx]`) yields
    a Fortran-ordered array for more than one column, so every such expression that is re-bound to
    `<x>._qdata` is wrapped in np.array / np.asarray / np.ascontiguousarray(.., order='C').
    INDEX-rank (add_leg): the index tuple that addresses the tensor extended by one leg has
    `rank + 1` entries, so the new leg can be the last axis."""
    m = prog.module(NPC)
    n = 0
    for q, f in m.functions.items():
        for st in stmts_of(f):
            if not (isinstance(st, ast.Assign) and any(
                    isinstance(t, ast.Attribute) and t.attr == '_qdata' for t in st.targets)):
                continue
            v = st.value
            if not (isinstance(v, ast.Subscript) and isinstance(v.slice, ast.Tuple) and
                    len(v.slice.elts) == 2 and isinstance(v.slice.elts[0], ast.Slice) and
                    v.slice.elts[0].lower is None and v.slice.elts[0].upper is None and
                    not isinstance(v.slice.elts[1], (ast.Slice, ast.Constant)) and
                    '_qdata' in unparse(v.value)):
                continue
            n += 1
            rep.violation('QDATA-contiguous', m, q, 'column-selection:' + unparse(v)[:30],
                          '`%s` re-binds _qdata to a column selection with an index array, which '
                          'is Fortran-contiguous for rank >= 3: the tensor fails test_sanity '
                          '("qdata is not C-contiguous")' % key_text(st)[:60], st.lineno)
    wrapped = sum(1 for q, f in m.functions.items() for st in stmts_of(f)
                  if isinstance(st, ast.Assign) and any(
                      isinstance(t, ast.Attribute) and t.attr == '_qdata' for t in st.targets) and
                  "order='C'" in unparse(st.value))
    rep.instance('QDATA-contiguous', {'wrapped_column_selections': wrapped, 'unwrapped': n})
    f = m.func('Array.add_leg')
    k = 0
    for st in stmts_of(f):
        if isinstance(st, ast.Assign) and isinstance(st.value, ast.BinOp) and isinstance(
                st.value.op, ast.Mult) and isinstance(st.value.left, ast.List) and \
                'slice' in unparse(st.value.left):
            k += 1
            ok = unparse(st.value.right) not in ('self.rank', 'rank')
            rep.instance('INDEX-rank', {'function': 'Array.add_leg', 'length': unparse(st.value.right),
                                        'ok': ok})
            if not ok:
                rep.violation('INDEX-rank', m, 'Array.add_leg', 'index-length:' + unparse(
                    st.value.right), '`%s` builds the index for the array with one MORE leg from '
                    'the rank of self: the position `axis == rank` (new leg last) is out of range'
                    % key_text(st)[:60], st.lineno)
    return wrapped + k


# ------------------------------------------------------------------ DTYPE-wrapped-block
def check_wrapped_block_dtype(prog, rep):
    """DTYPE-wrapped-block: `X = zeros(legs, dtype=D, ..)` followed by `X._data = [V[..]]` wraps a
    piece of the numpy array V as the only block of X. The declared dtype must be the dtype of what
    is stored: D is `V.dtype` (or the block is converted with `.astype(D)`). Declaring the dtype of
    the INPUT of a computation whose result may be of another type (eigenvectors of a real
    non-symmetric matrix are complex) produces a tensor that lies about its dtype."""
    m = prog.module(NPC)
    n = 0
    for q, f in m.functions.items():
        decl = {}
        for st in stmts_of(f):
            if isinstance(st, ast.Assign) and isinstance(st.targets[0], ast.Name) and isinstance(
                    st.value, ast.Call) and call_name(st.value) in ('zeros', 'Array'):
                d = kwarg(st.value, 'dtype')
                if d is None and call_name(st.value) == 'Array' and len(st.value.args) > 1:
                    d = st.value.args[1]
                if d is None and call_name(st.value) == 'zeros' and len(st.value.args) > 1:
                    d = st.value.args[1]
                if d is not None:
                    decl[st.targets[0].id] = unparse(d)
        for st in stmts_of(f):
            if not (isinstance(st, ast.Assign) and isinstance(st.targets[0], ast.Attribute) and
                    st.targets[0].attr == '_data' and isinstance(st.targets[0].value, ast.Name) and
                    st.targets[0].value.id in decl and isinstance(st.value, ast.List) and
                    len(st.value.elts) == 1):
                continue
            e = st.value.elts[0]
            base = e
            while isinstance(base, ast.Subscript):
                base = base.value
            if not (isinstance(base, ast.Name) and isinstance(e, ast.Subscript)):
                continue
            n += 1
            D = decl[st.targets[0].value.id]
            ok = D == base.id + '.dtype'
            rep.instance('DTYPE-wrapped-block', {'function': q, 'block': unparse(e)[:30],
                                                 'declared': D, 'ok': ok})
            if not ok:
                rep.violation('DTYPE-wrapped-block', m, q, 'declared-dtype:' + D,
                              '`%s` stores a piece of `%s` as the block of a tensor declared with '
                              'dtype `%s`, not `%s.dtype`: when the computation changes the type '
                              '(complex eigenvectors of a real matrix) the tensor fails test_sanity'
                              % (key_text(st)[:50], base.id, D, base.id), st.lineno)
    return n


# ------------------------------------------------------------------ CHARGE-valid-compare
def check_valid_compare(prog, rep):
    """CHARGE-valid-compare: `_get_block_charge(..)` returns VALID charges (reduced modulo `mod`).
    Comparing them with a total-charge value is only meaningful if that value is valid too: the
    stored `<x>.qtotal` (always valid), `make_valid(..)`, or a local assigned from one of them --
    never a raw function parameter, of which `[-2]` and `[1]` are the same Z_3 charge."""
    m = prog.module(NPC)
    n = 0
    for q, f in m.functions.items():
        ps = set(params(f))
        for c in ast.walk(f):
            if not (isinstance(c, ast.Compare) and len(c.ops) == 1 and isinstance(
                    c.ops[0], (ast.Eq, ast.NotEq))):
                continue
            sides = [c.left, c.comparators[0]]
            if not any(isinstance(x, ast.Call) and isinstance(x.func, ast.Attribute) and
                       x.func.attr == '_get_block_charge' for x in sides):
                continue
            other = [x for x in sides if not (isinstance(x, ast.Call) and isinstance(
                x.func, ast.Attribute) and x.func.attr == '_get_block_charge')][0]
            n += 1
            ok = True
            if isinstance(other, ast.Name) and other.id in ps:
                # a parameter: valid only if every assignment before the comparison re-binds it
                # from `.qtotal` / make_valid
                rebinds = [st for st in stmts_of(f) if isinstance(st, ast.Assign) and any(
                    isinstance(t, ast.Name) and t.id == other.id for t in st.targets) and
                    st.lineno < c.lineno and st in f.body]
                ok = any(unparse(st.value).endswith('.qtotal') or 'make_valid' in unparse(st.value)
                         for st in rebinds)
            rep.instance('CHARGE-valid-compare', {'function': q, 'compared_with': unparse(other),
                                                  'valid': ok})
            if not ok:
                rep.violation('CHARGE-valid-compare', m, q, 'raw-parameter:' + unparse(other),
                              '`%s` compares valid block charges with the raw parameter `%s`: an '
                              'equivalent representative of the total charge (e.g. [-2] for Z_3 = '
                              '[1]) matches no block' % (unparse(c)[:60], unparse(other)), c.lineno)
    return n


# ------------------------------------------------------------------ DTYPE-block-store
def check_block_store_dtype(prog, rep):
    """DTYPE-block-store: a module-level routine that builds its result tensor X first
    (`diag(1., leg, dtype=D)`, `zeros(.., D)`) and then replaces blocks `X._data[k] = E` with the
    output of a numpy / scipy routine must store E in the declared dtype: E is cast
    (`.astype(X.dtype ..)`, `np.asarray(.., dtype=..)`) or produced with an explicit dtype. The
    routines return the precision of their INPUT (float32 in -> float32 out), the declaration is
    fixed before."""
    m = prog.module(NPC)
    n = 0
    for q, f in m.functions.items():
        if '.' in q:
            continue
        made = set()
        for st in stmts_of(f):
            if isinstance(st, ast.Assign) and isinstance(st.targets[0], ast.Name) and isinstance(
                    st.value, ast.Call) and call_name(st.value) in ('diag', 'zeros', 'Array',
                                                                    'eye_like'):
                if kwarg(st.value, 'dtype') is not None or len(st.value.args) >= 3:
                    made.add(st.targets[0].id)
        for st in stmts_of(f):
            if not (isinstance(st, ast.Assign) and isinstance(st.targets[0], ast.Subscript) and
                    isinstance(st.targets[0].value, ast.Attribute) and
                    st.targets[0].value.attr == '_data' and isinstance(
                        st.targets[0].value.value, ast.Name) and
                    st.targets[0].value.value.id in made):
                continue
            n += 1
            v = st.value
            txt = unparse(v)
            local_cast = False
            if isinstance(v, ast.Name):
                local_cast = any(isinstance(a, ast.Assign) and unparse(a.targets[0]) == v.id and (
                    'dtype=' in unparse(a.value) or '.astype(' in unparse(a.value))
                    for a in ast.walk(f))
            ok = '.astype(' in txt or 'dtype=' in txt or local_cast
            rep.instance('DTYPE-block-store', {'function': q, 'store': key_text(st)[:60], 'cast': ok})
            if not ok:
                rep.violation('DTYPE-block-store', m, q, 'uncast-block:' + txt[:20],
                              '`%s` stores the output of a numerical routine as a block of a '
                              'tensor whose dtype was declared before, without casting it: for '
                              'single-precision input the tensor claims double precision but '
                              'holds single-precision blocks' % key_text(st)[:60], st.lineno)
    return n
