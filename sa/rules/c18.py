"""C18 — crash-consistency of result files (exhaustive typestate over crash points, R-CRASH) and
resume protocol (R-RESUME). Does not decide numerical equality of resumed and uninterrupted runs."""
import ast

from ..cfg import CFG
from ..core import (AnalysisError, body_nodes, call_name, dotted, is_self_attr, key_text, kwarg,
                    names_in, params, parent, stmts_of, unparse)
from ..dtable import run_paths
from ..inline import inline_helpers
from ..normal import inline_temps
from ..pattern import find, guards_of, pmatch

SIM = 'tenpy/simulations/simulation.py'

A, J, CM = 'absent', 'unloadable', 'complete'  # J: marker text file or partially written file


# private helpers the crash model reasons about itself (everything else is inlined)
KNOWN_HELPERS = ('_save_to_file', )


class _Unknown(Exception):
    pass


class CrashModel:
    """Symbolic execution of Simulation.save_results on the abstract file state (out, bak)."""

    def __init__(self, prog, rep, func='Simulation.save_results', config=None):
        self.prog = prog
        self.rep = rep
        self.m = prog.module(SIM)
        f0 = self.m.func(func)
        # helpers the model does not know by name are inlined ("extract method" undone)
        f1, self.inlined = inline_helpers(f0, func, self.m, prog, known=KNOWN_HELPERS)
        self.f = inline_temps(f1, names_only=True) if self.inlined else f0
        self.config = config or {}
        self.alias = {}  # local name -> 'out' | 'bak'
        for st in stmts_of(self.f):
            if isinstance(st, ast.Assign) and len(st.targets) == 1 and isinstance(
                    st.targets[0], ast.Name) and isinstance(st.value, ast.Call) and \
                    dotted(st.value.func) == 'Path' and st.targets[0].id == 'out_fn':
                self.alias['out_fn'] = 'out'
        for st in stmts_of(self.f):
            if isinstance(st, ast.Assign) and len(st.targets) == 1 and isinstance(
                    st.targets[0], ast.Name):
                if is_self_attr(st.value, 'output_filename'):
                    self.alias[st.targets[0].id] = 'out'
                elif is_self_attr(st.value, '_backup_filename'):
                    self.alias[st.targets[0].id] = 'bak'
        if set(self.alias.values()) != {'out', 'bak'}:
            # attributes may be used directly
            pass

    def which(self, node):
        if isinstance(node, ast.Name) and node.id in self.alias:
            return self.alias[node.id]
        if is_self_attr(node, 'output_filename'):
            return 'out'
        if is_self_attr(node, '_backup_filename'):
            return 'bak'
        return None

    def mentions_file(self, node):
        for n in ast.walk(node):
            if self.which(n) is not None:
                return True
        return False

    # ---- conditions
    def cond(self, node, st):
        """True / False / None(unknown)"""
        if isinstance(node, ast.BoolOp):
            vals = [self.cond(v, st) for v in node.values]
            if isinstance(node.op, ast.And):
                if any(v is False for v in vals):
                    return False
                if all(v is True for v in vals):
                    return True
                return None
            if any(v is True for v in vals):
                return True
            if all(v is False for v in vals):
                return False
            return None
        if isinstance(node, ast.UnaryOp) and isinstance(node.op, ast.Not):
            v = self.cond(node.operand, st)
            return None if v is None else (not v)
        if isinstance(node, ast.Call) and isinstance(node.func, ast.Attribute) and \
                node.func.attr in ('exists', 'is_file'):
            w = self.which(node.func.value)
            if w is not None:
                return st[w] != A
        if isinstance(node, ast.Call) and dotted(node.func) in ('os.path.exists',
                                                                'os.path.isfile') and node.args:
            w = self.which(node.args[0])
            if w is not None:
                return st[w] != A
        if isinstance(node, ast.Compare) and len(node.ops) == 1 and isinstance(
                node.comparators[0], ast.Constant) and node.comparators[0].value is None:
            w = self.which(node.left)
            if w is not None:
                # both file names are configured (safe_write on, output file requested)
                return isinstance(node.ops[0], ast.IsNot)
        txt = unparse(node)
        if txt in self.config:
            return self.config[txt]
        if self.mentions_file(node):
            raise AnalysisError('%s: condition `%s` on the result files is not modelled'
                                % (self.f.name, unparse(node)))
        return None

    # ---- effects
    def effects_of(self, stmt):
        """list of effect descriptors of a simple statement"""
        out = []
        for c in ast.walk(stmt):
            if not isinstance(c, ast.Call):
                continue
            fn = c.func
            if isinstance(fn, ast.Attribute):
                w = self.which(fn.value)
                if w is not None:
                    if fn.attr == 'unlink':
                        out.append(('unlink', w, None, c))
                    elif fn.attr in ('rename', 'replace'):
                        w2 = self.which(c.args[0]) if c.args else None
                        if w2 is None:
                            raise AnalysisError('save_results: `%s` moves a result file to an '
                                                'unmodelled place' % unparse(c))
                        out.append(('move', w, w2, c))
                    elif fn.attr in ('exists', 'is_file', 'with_suffix', 'suffix', 'stat',
                                     'absolute', 'resolve'):
                        pass
                    elif fn.attr in ('open', 'write_text', 'write_bytes', 'touch'):
                        out.append(('junk', w, None, c))  # a text marker, not a results file
                    else:
                        raise AnalysisError('save_results: unmodelled file operation `%s`' %
                                            unparse(c))
                    continue
            d = dotted(fn) or ''
            fileargs = [self.which(a) for a in c.args]
            if any(a is not None for a in fileargs):
                if d in ('self._save_to_file', 'hdf5_io.save', 'hdf5_io.save_to_hdf5'):
                    w = [a for a in fileargs if a is not None][0]
                    out.append(('write', w, None, c))
                elif d in ('os.remove', 'os.unlink'):
                    out.append(('unlink', fileargs[0], None, c))
                elif d in ('os.rename', 'os.replace', 'shutil.move'):
                    if fileargs[0] is None or fileargs[1] is None:
                        raise AnalysisError('save_results: `%s` not modelled' % unparse(c))
                    out.append(('move', fileargs[0], fileargs[1], c))
                elif d in ('os.path.exists', 'os.path.isfile', 'str', 'Path', 'repr',
                           'self.logger.info', 'self.logger.debug', 'self.logger.warning',
                           'self.get_backup_filename', 'Skip', 'os.path.splitext'):
                    pass
                else:
                    raise AnalysisError('save_results: call `%s` receives a result file name and '
                                        'is not modelled' % unparse(c))
        return out

    def run(self, state):
        """Execute save_results from `state`; returns list of crash points
        [(state_at_crash, description of last effect)] and the set of final states."""
        crashes = []
        finals = set()
        fin_stack = []

        def block(stmts, st, k):
            if not stmts:
                return k(st)
            s0, rest = stmts[0], stmts[1:]
            cont = lambda st2: block(rest, st2, k)  # noqa: E731
            if isinstance(s0, ast.If):
                v = self.cond(s0.test, st)
                if v is None:
                    block(s0.body, dict(st), cont)
                    block(s0.orelse, dict(st), cont)
                elif v:
                    block(s0.body, st, cont)
                else:
                    block(s0.orelse, st, cont)
                return
            if isinstance(s0, ast.Return):
                finals.add((st['out'], st['bak']))
                return
            if isinstance(s0, ast.Try) and self.mentions_file(s0) and not s0.orelse:
                # `try: B finally: F` (and `except E: H`): normal path B;F. In addition every
                # non-atomic write inside B may RAISE (disk full, unpicklable entry, second
                # Ctrl-C): the file is left partial, then H and F run and the exception
                # propagates. The state after that is where the next start finds the files.
                cleanup = [x for h in s0.handlers for x in h.body] + list(s0.finalbody)
                cleanup = [x for x in cleanup if not isinstance(x, ast.Raise)]
                fin_stack.append(cleanup)
                try:
                    block(list(s0.body) + list(s0.finalbody), st, cont)
                finally:
                    fin_stack.pop()
                return
            if isinstance(s0, (ast.For, ast.While, ast.Try, ast.With)):
                if self.mentions_file(s0):
                    if isinstance(s0, ast.With):
                        # `with X.open('w') as f: f.write(..)` = non-atomic write
                        for e in self.effects_of(ast.Expr(value=s0.items[0].context_expr)):
                            st = apply(e, st)
                        return block(s0.body, st, cont)
                    raise AnalysisError('save_results: compound statement `%s` touches the result '
                                        'files and is not modelled' % key_text(s0))
                return cont(st)
            if isinstance(s0, ast.Raise):
                return
            for e in self.effects_of(s0):
                st = apply(e, st)
            return cont(st)

        def apply(e, st):
            kind, w, w2, c = e
            st = dict(st)
            desc = unparse(c)
            if kind == 'unlink':
                st[w] = A
                crashes.append(((st['out'], st['bak']), desc))
            elif kind == 'move':
                st[w2] = st[w]
                st[w] = A
                crashes.append(((st['out'], st['bak']), desc))
            elif kind == 'junk':
                st[w] = J
                crashes.append(((st['out'], st['bak']), desc + ' [marker written]'))
            elif kind == 'write':
                st[w] = J
                crashes.append(((st['out'], st['bak']), desc + ' [during write]'))
                if fin_stack:
                    # the write raises: clean-up code of the enclosing try blocks still runs
                    cleanup = [x for blk in reversed(fin_stack) for x in blk]
                    saved, fin_stack[:] = list(fin_stack), []
                    try:
                        block(cleanup, dict(st), lambda st3, d=desc: crashes.append(
                            ((st3['out'], st3['bak']),
                             d + ' [the write raised; the except/finally code ran]')))
                    finally:
                        fin_stack[:] = saved
                st[w] = CM
                crashes.append(((st['out'], st['bak']), desc + ' [written]'))
            return st

        block(list(self.f.body), {'out': state[0], 'bak': state[1]},
              lambda st: finals.add((st['out'], st['bak'])))
        return crashes, finals


def check_crash(prog, rep):
    cm = CrashModel(prog, rep)
    m = cm.m
    rep.unit(m)
    # restart: Simulation.__init__ runs fix_output_filenames; it is interpreted on the same
    # abstract file state, for a resumed run (loaded_from_checkpoint) and for a fresh run that
    # overwrites; a fresh run without overwrite picks new file names (old files untouched)
    restart_cfgs = [
        ('resume', {'skip_if_exists': False, 'self.loaded_from_checkpoint': True,
                    'not self.loaded_from_checkpoint': False, 'overwrite_output': False,
                    'not overwrite_output': True, 'output_filename is None': False}),
        ('resume+overwrite', {'skip_if_exists': False, 'self.loaded_from_checkpoint': True,
                              'not self.loaded_from_checkpoint': False, 'overwrite_output': True,
                              'not overwrite_output': False, 'output_filename is None': False}),
        ('fresh+overwrite', {'skip_if_exists': False, 'self.loaded_from_checkpoint': False,
                             'not self.loaded_from_checkpoint': True, 'overwrite_output': True,
                             'not overwrite_output': False, 'output_filename is None': False}),
    ]
    restarters = [(nm, CrashModel(prog, rep, 'Simulation.fix_output_filenames', cfg))
                  for nm, cfg in restart_cfgs]
    reachable = set()
    # very first start: no files; fix_output_filenames creates the marker
    _, fin0 = restarters[2][1].run((A, A))
    todo = list(fin0) or [(A, A)]
    transitions = 0
    viol = {}
    rviol = {}
    first_bad = set()

    def restart(cs):
        """states after re-initialising a simulation on file state cs (+ violations inside)"""
        nonlocal transitions
        out = set()
        for nm, rm in restarters:
            if nm.startswith('resume') and CM not in cs:
                continue  # nothing to resume from
            crashes, finals = rm.run(cs)
            for cs2, desc in crashes:
                transitions += 1
                rep.instance('CRASH-typestate', {'pre': list(cs), 'restart': nm, 'effect': desc,
                                                 'crash_state': list(cs2)})
                if CM in cs and CM not in cs2:
                    key = 'restart:%s pre=(%s,%s) effect=%s' % (nm, cs[0], cs[1], desc)
                    rviol.setdefault(key, (cs, cs2, desc, nm))
                out.add(cs2)
            out |= set(finals)
        out.add((A, J))  # fresh run under new file names
        return out

    while todo:
        s = todo.pop()
        if s in reachable:
            continue
        reachable.add(s)
        crashes, finals = cm.run(s)
        had_complete = CM in s
        for cs, desc in crashes:
            transitions += 1
            rep.instance('CRASH-typestate', {'pre': list(s), 'effect': desc, 'crash_state': list(cs)})
            if had_complete and CM not in cs and s not in first_bad:
                # only the first effect that destroys the last complete file is the culprit;
                # later crash points of the same save are consequences
                first_bad.add(s)
                key = 'pre=(%s,%s) effect=%s' % (s[0], s[1], desc)
                viol.setdefault(key, (s, cs, desc))
            todo.extend(restart(cs))
        for fs in finals:
            transitions += 1
            todo.append(fs)
            todo.extend(restart(fs))
    for key, (cs, cs2, desc, nm) in sorted(rviol.items()):
        rep.violation('CRASH-typestate', m, 'Simulation.fix_output_filenames', key,
                      're-initialising a simulation (%s) on file state (output=%s, backup=%s) — '
                      'which holds a complete results file — `%s` leaves (output=%s, backup=%s): '
                      'the only loadable results file is destroyed before anything new is saved' %
                      (nm, cs[0], cs[1], desc, cs2[0], cs2[1]), restarters[0][1].f.lineno)
    for key, (s, cs, desc) in sorted(viol.items()):
        c_line = cm.f.lineno
        rep.violation('CRASH-typestate', m, 'Simulation.save_results', key,
                      'starting a save in file state (output=%s, backup=%s) — which holds a '
                      'complete results file — a crash right after `%s` leaves (output=%s, '
                      'backup=%s): no loadable results file remains' %
                      (s[0], s[1], desc, cs[0], cs[1]), c_line)
    rep.extra['crash_model'] = {'states': len(reachable), 'transitions': transitions,
                                'reachable_states': sorted(map(list, reachable))}
    # _save_to_file overrides must write exactly the given file
    ct = prog.classtable()
    for ci in ct.cone(ct.get('Simulation')):
        f = ci.methods.get('_save_to_file')
        if f is None:
            continue
        rep.instance('CRASH-save-override', {'class': ci.name})
        pm = params(f)
        for c in body_nodes(f):
            if isinstance(c, ast.Attribute) and c.attr in ('_backup_filename', ):
                rep.violation('CRASH-save-override', ci.module, ci.name + '._save_to_file',
                              'touches-backup', '_save_to_file must not touch the backup file',
                              c.lineno)
        if not any(isinstance(c, ast.Call) and pm[2] in names_in(c) for c in body_nodes(f)):
            rep.violation('CRASH-save-override', ci.module, ci.name + '._save_to_file',
                          'ignores-filename', '_save_to_file does not write to `%s`' % pm[2],
                          f.lineno)
    # get_backup_filename: differs from the output file name when safe_write
    gb = m.func('Simulation.get_backup_filename')
    rep.instance('CRASH-backup-name', {})
    ok = False
    for r in body_nodes(gb):
        if isinstance(r, ast.Return) and r.value is not None and isinstance(r.value, ast.Call) \
                and isinstance(r.value.func, ast.Attribute) and r.value.func.attr == 'with_suffix':
            arg = r.value.args[0]
            if isinstance(arg, ast.BinOp) and isinstance(arg.left, ast.Constant) and \
                    arg.left.value and params(gb)[1] in names_in(arg.right):
                ok = True
    if not ok:
        rep.violation('CRASH-backup-name', m, 'Simulation.get_backup_filename', 'backup-name',
                      'the backup name must be derived from, and differ from, the output name',
                      gb.lineno)
    return len(reachable), transitions


def _call_order(f, names):
    """line-ordered list of self.<name>() calls at top level of f"""
    out = []
    for c in body_nodes(f):
        if isinstance(c, ast.Call) and isinstance(c.func, ast.Attribute) and is_self_attr(
                c.func) and c.func.attr in names:
            out.append((c.lineno, c.func.attr))
    return [n for _, n in sorted(out)]


def check_resume_order(prog, rep):
    m = prog.module(SIM)
    run = m.func('Simulation.run')
    res = m.func('Simulation.resume_run')
    cfg_run = CFG(run)
    cfg_res = CFG(res)

    def calls(name):
        return lambda n: n.stmt is not None and any(
            isinstance(c, ast.Call) and dotted(c.func) == 'self.' + name
            for c in ast.walk(n.stmt)) and not isinstance(n.stmt, (ast.If, ast.While, ast.For))

    def stmts_calling(f, name):
        return [s for s in stmts_of(f) if not isinstance(s, (ast.If, ast.While, ast.For)) and any(
            isinstance(c, ast.Call) and dotted(c.func) == 'self.' + name for c in ast.walk(s))]

    # run(): init_algorithm and init_measurements precede run_algorithm
    for f, cfg, algo, q in ((run, cfg_run, 'run_algorithm', 'Simulation.run'),
                            (res, cfg_res, 'resume_run_algorithm', 'Simulation.resume_run')):
        ss = stmts_calling(f, algo)
        rep.instance('RESUME-order', {'function': q, 'algorithm_call': algo})
        if not ss:
            rep.violation('RESUME-order', m, q, 'no-' + algo, '%s never calls %s' % (q, algo),
                          f.lineno)
            continue
        for need in ('init_model', 'init_state', 'init_algorithm'):
            if not cfg.dominators_like_before(ss[0], calls(need)):
                rep.violation('RESUME-order', m, q, 'missing-' + need,
                              '`%s()` must precede `%s()` on every path' % (need, algo),
                              ss[0].lineno)
        # after the algorithm: final_measurements then save_results, results['finished_run']
        for need in ('final_measurements', 'save_results'):
            if cfg.exit_reachable_avoiding(ss[0], calls(need)):
                rep.violation('RESUME-order', m, q, 'missing-' + need,
                              'a path from `%s()` to the end skips `%s()`' % (algo, need),
                              ss[0].lineno)
    # run: initial measurement before algorithm; resume_run: none (would duplicate)
    ss = stmts_calling(run, 'run_algorithm')
    rep.instance('RESUME-measure-once', {'function': 'Simulation.run'})
    if ss and not cfg_run.dominators_like_before(ss[0], calls('init_measurements')):
        rep.violation('RESUME-measure-once', m, 'Simulation.run', 'no-initial-measurement',
                      'run() must call init_measurements() before the algorithm', ss[0].lineno)
    rep.instance('RESUME-measure-once', {'function': 'Simulation.resume_run'})
    rs = stmts_calling(res, 'resume_run_algorithm')
    for bad in ('init_measurements', 'make_measurements'):
        for s in stmts_calling(res, bad):
            if rs and s.lineno < rs[0].lineno:
                rep.violation('RESUME-measure-once', m, 'Simulation.resume_run',
                              'duplicate-initial-measurement',
                              'resume_run() calls %s() before resuming the algorithm: the '
                              'measurement of the checkpointed state is taken twice' % bad,
                              s.lineno)
    if rs and not cfg_res.dominators_like_before(rs[0], calls('_connect_measurements')):
        rep.violation('RESUME-measure-once', m, 'Simulation.resume_run', 'measurements-not-connected',
                      'resume_run() must connect the measurements before resuming, otherwise '
                      'measurements after the checkpoint are lost', rs[0].lineno)
    # init_measurements connects and measures
    im = m.func('Simulation.init_measurements')
    rep.instance('RESUME-measure-once', {'function': 'Simulation.init_measurements'})
    if '_connect_measurements' not in unparse(im):
        rep.violation('RESUME-measure-once', m, 'Simulation.init_measurements', 'no-connect',
                      'init_measurements must connect measurement functions', im.lineno)
    # from_saved_checkpoint: measurement arrays -> lists, resume_data forwarded, flag set
    fc = m.func('Simulation.from_saved_checkpoint')
    rep.instance('RESUME-from-checkpoint', {})
    src = unparse(fc)
    lst = False
    SRC = "sim.results['measurements']"
    for st in stmts_of(fc):
        if not (isinstance(st, ast.Assign) and unparse(st.targets[0]) == SRC):
            continue
        v = st.value
        e = pmatch('{$k: list($v) for $k, $v in $$src.items()}', v)
        if e and unparse(e['$$src']) == SRC:
            lst = True
        if isinstance(v, ast.Name):
            # built in a loop: D[k] = list(v) for k, v in SRC.items()
            for n2, e2 in find('%s[$k] = list($v)' % v.id, fc):
                lp = n2
                while lp is not None and not isinstance(lp, ast.For):
                    lp = getattr(lp, '_parent', None)
                if lp is not None and pmatch('%s.items()' % SRC, lp.iter) and \
                        [unparse(x) for x in getattr(lp.target, 'elts', [])] == [e2['$k'], e2['$v']]:
                    lst = True
    if not lst:
        rep.violation('RESUME-from-checkpoint', m, 'Simulation.from_saved_checkpoint',
                      'measurements-not-lists',
                      'stored measurement arrays must be converted back to lists before new '
                      'measurements are appended (np.ndarray has no append)', fc.lineno)
    flag = [s for s in stmts_of(fc) if isinstance(s, ast.Assign) and
            unparse(s.targets[0]).endswith('.loaded_from_checkpoint') and unparse(s.value) == 'True']
    init = [s for s in stmts_of(fc) if '__init__' in unparse(s)]
    if not flag or not init or flag[0].lineno > init[0].lineno:
        rep.violation('RESUME-from-checkpoint', m, 'Simulation.from_saved_checkpoint',
                      'flag-after-init',
                      'loaded_from_checkpoint must be set before __init__ runs (it decides '
                      'whether existing output is overwritten or renamed)', fc.lineno)
    fwd = False
    pc = params(fc)
    res_p = [x for x in pc if 'checkpoint' in x or 'results' in x]
    for c in body_nodes(fc):
        e = pmatch("$k.setdefault('resume_data', $r['resume_data'])", c) or \
            pmatch("$k.setdefault('resume_data', $r.get('resume_data'))", c)
        if e and e['$r'] in res_p and fc.args.kwarg is not None and e['$k'] == fc.args.kwarg.arg:
            fwd = True
    for st in stmts_of(fc):
        e = pmatch("$k['resume_data'] = $r['resume_data']", st)
        if e and e['$r'] in res_p and fc.args.kwarg is not None and e['$k'] == fc.args.kwarg.arg:
            fwd = True
    if not fwd:
        rep.violation('RESUME-from-checkpoint', m, 'Simulation.from_saved_checkpoint',
                      'resume-data-not-forwarded',
                      'resume_data of the checkpoint is not passed to the simulation', fc.lineno)
    res_assign = [s for s in stmts_of(fc) if isinstance(s, ast.Assign) and
                  unparse(s.targets[0]).endswith('.results') and
                  unparse(s.value) == 'checkpoint_results']
    if not res_assign or (init and res_assign[0].lineno < init[0].lineno):
        rep.violation('RESUME-from-checkpoint', m, 'Simulation.from_saved_checkpoint',
                      'results-not-restored',
                      'sim.results must be set to the checkpoint results after __init__',
                      fc.lineno)
    # init_algorithm: connect save_at_checkpoint; resume_data handed to the engine
    ia = m.func('Simulation.init_algorithm')
    try:
        ia = inline_temps(ia, aliases_only=True)      # `checkpoint_event = self.engine.checkpoint`
    except Exception:
        pass
    rep.instance('RESUME-checkpoint-connected', {})
    ok = any(isinstance(c, ast.Call) and dotted(c.func) == 'self.engine.checkpoint.connect' and
             c.args and dotted(c.args[0]) == 'self.save_at_checkpoint' for c in body_nodes(ia))
    if not ok:
        rep.violation('RESUME-checkpoint-connected', m, 'Simulation.init_algorithm',
                      'checkpoint-not-connected',
                      'save_at_checkpoint is not connected to the engine checkpoint event: no '
                      'intermediate results are ever saved', ia.lineno)
    ok = False
    for st in ast.walk(ia):
        if isinstance(st, ast.If) and "'resume_data' in self.results" in unparse(st.test):
            if any(isinstance(c, ast.Call) and dotted(c.func) == 'kwargs.setdefault' and
                   c.args and getattr(c.args[0], 'value', None) == 'resume_data'
                   for c in ast.walk(st)):
                ok = True
    eng = [c for c in body_nodes(ia) if isinstance(c, ast.Call) and
           dotted(c.func) == 'AlgorithmClass']
    if not ok or not eng or not any(k.arg is None for k in eng[0].keywords):
        rep.violation('RESUME-checkpoint-connected', m, 'Simulation.init_algorithm',
                      'resume-data-not-used',
                      'resume_data from the results must be passed to the algorithm constructor',
                      ia.lineno)
    # save_at_checkpoint: save before raising on SIGINT
    sc = m.func('Simulation.save_at_checkpoint')
    rep.instance('RESUME-sigint', {'function': 'Simulation.save_at_checkpoint'})
    cfg = CFG(sc)
    for st in stmts_of(sc):
        if isinstance(st, ast.Raise):
            if not cfg.dominators_like_before(st, calls('save_results')):
                rep.violation('RESUME-sigint', m, 'Simulation.save_at_checkpoint',
                              'raise-before-save',
                              'KeyboardInterrupt is raised on a path that has not saved the '
                              'results', st.lineno)
    # decision table: results are saved iff (save interval elapsed) or (SIGINT received)
    due = [unparse(c) for c in body_nodes(sc) if isinstance(c, ast.Compare) and
           '_last_save' in unparse(c)]
    notnone = [unparse(c) for c in body_nodes(sc) if isinstance(c, ast.Compare) and
               'save_every' in unparse(c) and unparse(c).endswith('is not None')]
    isnone = [unparse(c) for c in body_nodes(sc) if isinstance(c, ast.Compare) and
              'save_every' in unparse(c) and unparse(c).endswith('is None')]
    body = [s2 for s2 in sc.body if not (isinstance(s2, ast.Expr) and
                                         isinstance(s2.value, ast.Constant))]
    bad = None
    if not due:
        bad = 'no comparison of the time since the last save with the save interval'
    else:
        for sig in (True, False):
            for x in (True, False):
                for y in (True, False):
                    atoms = {'self.received_signal_sigint': sig}
                    atoms.update({t: y for t in due})
                    atoms.update({t: x for t in notnone})
                    atoms.update({t: not x for t in isnone})
                    saved = set()
                    for p in run_paths(body, atoms):
                        saved.add(any(isinstance(st, ast.Expr) and isinstance(
                            st.value, ast.Call) and dotted(st.value.func) == 'self.save_results'
                            for st in p.trace))
                    want = sig or (x and y)
                    if saved != {want}:
                        bad = 'for (SIGINT=%s, interval configured=%s, interval elapsed=%s) the ' \
                            'results are %s' % (sig, x, y, 'saved' if True in saved else 'not saved')
    if bad:
        rep.violation('RESUME-sigint', m, 'Simulation.save_at_checkpoint', 'save-condition',
                      'results must be saved when save_every_x_seconds elapsed OR SIGINT was '
                      'received: ' + bad, sc.lineno)
    ha = m.func('Simulation.handle_abort_signal')
    rep.instance('RESUME-sigint', {'function': 'Simulation.handle_abort_signal'})
    sets = [s for s in stmts_of(ha) if isinstance(s, ast.Assign) and
            is_self_attr(s.targets[0], 'received_signal_sigint') and unparse(s.value) == 'True']
    if not sets:
        rep.violation('RESUME-sigint', m, 'Simulation.handle_abort_signal', 'flag-not-set',
                      'first SIGINT must set received_signal_sigint', ha.lineno)
    else:
        cfg = CFG(ha)
        # on first SIGINT no exception: the flag store is reachable without raise when flag unset
        for st in stmts_of(ha):
            if isinstance(st, ast.Raise) and parent_if_test(st) is None:
                rep.violation('RESUME-sigint', m, 'Simulation.handle_abort_signal',
                              'unconditional-raise', 'handler raises unconditionally', st.lineno)
    # save_results: sets _last_save, uses prepare_results_for_save when results is None
    sr = m.func('Simulation.save_results')
    rep.instance('RESUME-save-payload', {})
    from ..pattern import P, has
    if not has(P('self.prepare_results_for_save()'), inline_temps(sr)):
        rep.violation('RESUME-save-payload', m, 'Simulation.save_results', 'payload',
                      'save_results must save prepare_results_for_save()', sr.lineno)
    pr = m.func('Simulation.prepare_results_for_save')
    npr = inline_temps(pr, aliases_only=True)
    # the dict that is returned: stores of the two keys into it (whatever the local is called)
    rets = {unparse(r.value) for r in ast.walk(npr) if isinstance(r, ast.Return) and
            r.value is not None}
    keys = {}
    for st in stmts_of(npr):
        if isinstance(st, ast.Assign) and isinstance(st.targets[0], ast.Subscript) and \
                isinstance(st.targets[0].slice, ast.Constant) and \
                unparse(st.targets[0].value) in rets:
            keys[st.targets[0].slice.value] = st.value
    rd = keys.get('resume_data')
    if rd is None or not pmatch(P('self.get_resume_data()'), rd) or \
            'simulation_parameters' not in keys:
        rep.violation('RESUME-save-payload', m, 'Simulation.prepare_results_for_save',
                      'resume-data-missing',
                      'checkpoint results must contain simulation_parameters and resume_data '
                      '(needed by from_saved_checkpoint)', pr.lineno)
    copied = any(isinstance(st, ast.Assign) and unparse(st.targets[0]) in rets and (
        pmatch(P('self.results.copy()'), st.value) or pmatch(P('dict(self.results)'), st.value) or
        pmatch(P('copy.copy(self.results)'), st.value)) for st in stmts_of(npr))
    if not copied:
        rep.violation('RESUME-save-payload', m, 'Simulation.prepare_results_for_save',
                      'results-not-copied',
                      'prepare_results_for_save must work on a copy of self.results (it converts '
                      'measurement lists to arrays)', pr.lineno)


def parent_if_test(node):
    from ..core import parent
    p = parent(node)
    while p is not None:
        if isinstance(p, ast.If):
            return p
        p = parent(p)
    return None


def _update_keys(st):
    """keys written by `<dict>.update(k=v, ..)` / `<dict>.update({'k': v, ..})` in statement st"""
    out = []
    if isinstance(st, ast.Expr) and isinstance(st.value, ast.Call) and isinstance(
            st.value.func, ast.Attribute) and st.value.func.attr == 'update':
        c = st.value
        out += [k.arg for k in c.keywords if k.arg is not None]
        for a in c.args:
            if isinstance(a, ast.Dict):
                out += [k.value for k in a.keys if isinstance(k, ast.Constant)]
    return out


def check_resume_keys(prog, rep):
    """Unconditional reads of resume_data keys in the algorithm classes must be written
    unconditionally by get_resume_data along the MRO."""
    ct = prog.classtable()
    base = ct.get('Algorithm')
    for ci in ct.cone(base):
        # keys written along the MRO
        written = {}
        for c in ci.mro:
            g = c.methods.get('get_resume_data')
            if g is None:
                continue
            for st in stmts_of(g):
                if isinstance(st, ast.Assign) and isinstance(st.targets[0], ast.Subscript) and \
                        isinstance(st.targets[0].slice, ast.Constant):
                    # unconditional = direct child of function body
                    written.setdefault(st.targets[0].slice.value, st in g.body)
                if isinstance(st, ast.Assign) and isinstance(st.value, ast.Dict):
                    for k in st.value.keys:
                        if isinstance(k, ast.Constant):
                            written.setdefault(k.value, True)
                for k in _update_keys(st):
                    written.setdefault(k, st in g.body)
        # unconditional reads in methods defined in this class
        for name, f in ci.methods.items():
            for n in body_nodes(f):
                if isinstance(n, ast.Subscript) and isinstance(n.ctx, ast.Load) and isinstance(
                        n.slice, ast.Constant) and isinstance(n.slice.value, str) and \
                        (dotted(n.value) in ('self.resume_data', 'resume_data')):
                    key = n.slice.value
                    # guarded by `'key' in resume_data`?
                    guarded = False
                    from ..core import parent
                    p = parent(n)
                    while p is not None and p is not f:
                        if isinstance(p, ast.If) and ("'%s' in" % key) in unparse(p.test):
                            guarded = True
                        p = parent(p)
                    q = '%s.%s' % (ci.name, name)
                    rep.instance('RESUME-keys', {'function': q, 'key': key, 'guarded': guarded})
                    if guarded:
                        continue
                    if key not in written:
                        rep.violation('RESUME-keys', ci.module, q, 'unwritten-key:' + key,
                                      '`resume_data[%r]` is read unconditionally but no '
                                      'get_resume_data along the MRO of %s writes it: resuming '
                                      'raises KeyError / restarts from wrong state' %
                                      (key, ci.name), n.lineno)
    # accumulators written as data['K'] = self.A must be restored by `self.A = resume_data['K']`
    # (an unconditional override when resume data is present -- not e.g. merely a default value
    # of an option, which a saved option would shadow)
    for ci in ct.cone(base):
        g = ci.methods.get('get_resume_data')
        if g is None:
            continue
        for st in stmts_of(g):
            if not (isinstance(st, ast.Assign) and isinstance(st.targets[0], ast.Subscript) and
                    isinstance(st.targets[0].slice, ast.Constant) and is_self_attr(st.value)):
                continue
            key = st.targets[0].slice.value
            attr = st.value.attr
            restored = False
            for sub in ct.cone(ci):
                pass
            for c in ci.mro:
                for f in c.methods.values():
                    for s2 in stmts_of(f):
                        if isinstance(s2, ast.Assign) and any(
                                is_self_attr(t, attr) for t in s2.targets):
                            v = s2.value
                            if isinstance(v, ast.Subscript) and 'resume_data' in unparse(
                                    v.value) and isinstance(v.slice, ast.Constant) and \
                                    v.slice.value == key:
                                restored = True
                            if isinstance(v, ast.Call) and isinstance(v.func, ast.Attribute) and \
                                    v.func.attr == 'get' and 'resume_data' in unparse(
                                        v.func.value) and v.args and isinstance(
                                            v.args[0], ast.Constant) and v.args[0].value == key:
                                restored = True
            q = '%s.get_resume_data' % ci.name
            rep.instance('RESUME-restore', {'class': ci.name, 'key': key, 'attr': attr,
                                            'restored': restored})
            if not restored:
                rep.violation('RESUME-restore', ci.module, q, 'not-restored:' + key,
                              'resume data stores self.%s under %r but no method along the MRO of '
                              '%s restores `self.%s = resume_data[%r]`: a resumed run continues '
                              'with a re-initialised %s (e.g. an option default shadowed by the '
                              'saved options) instead of the checkpointed value' %
                              (attr, key, ci.name, attr, key, attr), st.lineno)
    # get_resume_data overrides call super() and return the dict
    for ci in ct.cone(base):
        g = ci.methods.get('get_resume_data')
        if g is None or ci is base:
            continue
        q = ci.name + '.get_resume_data'
        rep.instance('RESUME-super', {'function': q})
        if 'super().get_resume_data(' not in unparse(g):
            rep.violation('RESUME-super', ci.module, q, 'no-super',
                          'override drops the resume data of the base classes (psi, ...)',
                          g.lineno)
        rets = [r for r in body_nodes(g) if isinstance(r, ast.Return)]
        if not rets or any(r.value is None for r in rets):
            rep.violation('RESUME-super', ci.module, q, 'no-return',
                          'get_resume_data must return the data dict', g.lineno)
    # base: psi always in resume data
    g = base.methods.get('get_resume_data')
    rep.instance('RESUME-super', {'function': 'Algorithm.get_resume_data'})
    if g is None or "'psi'" not in unparse(g):
        rep.violation('RESUME-super', base.module, 'Algorithm.get_resume_data', 'no-psi',
                      'resume data must contain psi', g.lineno if g else 1)



# ------------------------------------------------------------------ RESUME-checkpoint-guard
def check_checkpoint_guard(prog, rep):
    """The main loops emit `checkpoint` at the START of an iteration, i.e. for the state the
    previous iteration of THIS run() call produced.  The first iteration of a call has nothing new
    to save: on a resumed engine its state is the one the checkpoint being resumed from already
    recorded (and measured).  So the emit is guarded, and by something local to the call: a guard
    that reads engine attributes restored from the resume data (`self.sweeps > 0`) holds at once
    on resume and repeats the checkpoint (duplicate measurements at checkpoints)."""
    n = 0
    for rel in ('tenpy/algorithms/mps_common.py', 'tenpy/algorithms/algorithm.py',
                'tenpy/algorithms/dmrg.py', 'tenpy/algorithms/vumps.py'):
        m = prog.module(rel)
        for q, f in sorted(m.functions.items()):
            if not q.endswith('.run'):
                continue
            for c in body_nodes(f):
                if not (isinstance(c, ast.Call) and unparse(c.func) == 'self.checkpoint.emit'):
                    continue
                st = c
                while not isinstance(st, ast.stmt):
                    st = parent(st)
                loop = st
                while loop is not None and not isinstance(loop, (ast.While, ast.For)):
                    loop = parent(loop) if not isinstance(loop, ast.FunctionDef) else None
                if loop is None:
                    continue
                # is the emit at the start of the iteration (before the work of the iteration)?
                work = [x for x in ast.walk(loop) if isinstance(x, ast.Call) and unparse(x.func) in (
                    'self.run_iteration', 'self.sweep', 'self.update', 'self.run_evolution')]
                if not work or min(w.lineno for w in work) < st.lineno:
                    continue
                n += 1
                gs = [(t, pol) for t, pol, _ in guards_of(f, st)]
                inner = [g for g in gs if g[0] != unparse(loop.test)] if isinstance(
                    loop, ast.While) else gs
                rep.instance('RESUME-checkpoint-guard', {'function': q, 'guards': [
                    ('' if pol else 'not ') + t for t, pol in inner]})
                if not inner:
                    rep.violation('RESUME-checkpoint-guard', m, q, 'unguarded-emit',
                                  'checkpoint is emitted at the start of every iteration, the '
                                  'first one of the call included: a resumed run repeats the '
                                  'checkpoint it was resumed from', st.lineno)
                elif all('self.' in t for t, pol in inner):
                    rep.violation('RESUME-checkpoint-guard', m, q, 'guard-on-restored-state',
                                  'the emit is guarded by `%s` only; engine attributes are '
                                  'restored from the resume data, so the guard already holds in '
                                  'the first iteration of a resumed run(): the checkpoint (and '
                                  'its measurements) are repeated' % inner[0][0], st.lineno)
    return n


def run(prog, rep, tier):
    rep.rule('CRASH-typestate', 'exhaustive abstract execution of save_results over file states '
             '(output, backup) in {absent, unloadable, complete}^2, closed under crash-after-any-'
             'effect and restart; from every reachable state holding a complete file every crash '
             'point must keep one')
    rep.rule('RESUME-*', 'ordering of run/resume_run, checkpoint connection, measurement '
             'bookkeeping on resume, SIGINT protocol, agreement of resume_data keys between '
             'get_resume_data and the consumers')
    ns, nt = check_crash(prog, rep)
    check_resume_order(prog, rep)
    check_resume_keys(prog, rep)
    if check_init_state_once(prog, rep) < 1:
        raise AnalysisError('RESUME-init-once: no in-place preparation of psi in any init_state')
    if check_resume_forwarded(prog, rep) < 15:
        raise AnalysisError('RESUME-forward: fewer than 15 overrides delegate with resume_data')
    if check_override_returns(prog, rep) < 5:
        raise AnalysisError('RESUME-return: fewer than 5 value-returning overrides in simulations/')
    check_checkpoint_priorities(prog, rep)
    if check_resume_sequential(prog, rep) < 1:
        raise AnalysisError('RESUME-sequential: no **mapping passed to run_seq_simulations')
    rep.rule('OPTIONS-readonly', 'methods that receive entries of the simulation parameters (saved '
             'in every checkpoint) do not modify them in place (reaching definitions: the '
             'parameter binding does not reach an in-place write)')
    if check_options_readonly(prog, rep) < 2:
        raise AnalysisError('OPTIONS-readonly: calls handing option entries to methods not found')
    rep.rule('RESUME-empty-stats', 'reads of the last statistics entry reachable from '
             'stopping_criterion() before the first iteration are dominated by an emptiness test')
    if check_empty_stats(prog, rep) < 2:
        raise AnalysisError('RESUME-empty-stats: last-entry reads in is_converged not found')
    rep.rule('RESUME-accumulators', 'attributes an algorithm accumulates over its run (sweeps, '
             'evolved_time, trunc_err) are stored by get_resume_data')
    if check_resume_accumulators(prog, rep) < 8:
        raise AnalysisError('RESUME-accumulators: fewer than 8 accumulations in Algorithm classes')
    rep.rule('RESUME-read-before-consume / RESUME-seq-index', 'overrides read the resume data before '
             'the base init_algorithm consumes it; the sequential index is stored before the '
             'parameters are copied')
    if check_resume_ordering(prog, rep) < 2:
        raise AnalysisError('RESUME-read-before-consume / RESUME-seq-index: anchors not found')
    rep.rule('RESUME-checkpoint-guard', 'a checkpoint emitted at the start of an iteration is skipped '
             'in the first iteration of the call by a flag local to the call')
    if check_checkpoint_guard(prog, rep) < 1:
        raise AnalysisError('RESUME-checkpoint-guard: the emit of IterativeSweeps.run not found')
    rep.floor('CRASH-typestate', 8)
    rep.floor('RESUME-order', 2)
    rep.floor('RESUME-keys', 3)
    rep.floor('RESUME-super', 3)
    rep.assumptions += [
        'file system is crash-consistent per operation: rename/unlink atomic, hdf5_io.save '
        'non-atomic (absent/old -> partial -> complete)',
        'safe_write=False is the documented unsafe mode and is excluded',
        'equality of resumed and uninterrupted numerical results is NOT decided',
    ]
    from ..flow import check_dead_computations
    rep.rule('VALUE-dead', 'no result of a call is bound to a local that is never read (reaching '
             'definitions)')
    check_dead_computations(prog, rep, ['tenpy/simulations/simulation.py', 'tenpy/simulations/time_evolution.py', 'tenpy/simulations/ground_state_search.py'])
    from ..flow import check_undefined_attrs
    rep.rule('ATTR-defined', 'every self.X read names an attribute bound somewhere in the class family')
    check_undefined_attrs(prog, rep, ['tenpy/simulations/simulation.py', 'tenpy/simulations/time_evolution.py'])
    return rep.finish(
        level='other',
        explanation='Crash typestate: %d reachable abstract file states, %d crash/step '
        'transitions enumerated exhaustively from the effects extracted from the current source '
        'of Simulation.save_results; resume protocol decided by CFG order rules and key-table '
        'agreement.' % (ns, nt),
        proof={'states': ns, 'transitions': nt, 'exhaustive': True})


# ------------------------------------------------------------------ resuming a sequential simulation
def _mapping_facts(nf, call, name, depth=0):
    """(keys known to be in the mapping `name` at `call`, keys known to be removed):
    guards `'K' in name`, derivation `name = {k: v for k, v in SRC.items() if k != 'K'}` or
    `name = dict(SRC)` / `SRC.copy()`, later `name.pop('K', ..)` / `del name['K']`"""
    known, removed = set(), set()
    for text, pol, e in guards_of(nf, call):
        if pol and isinstance(e, ast.Compare) and len(e.ops) == 1 and isinstance(
                e.ops[0], ast.In) and isinstance(e.left, ast.Constant) and \
                unparse(e.comparators[0]) == name:
            known.add(e.left.value)
    src = None
    for st in stmts_of(nf):
        if st.lineno >= call.lineno:
            continue
        if isinstance(st, ast.Assign) and len(st.targets) == 1 and unparse(st.targets[0]) == name:
            v = st.value
            src, removed = None, set()
            if isinstance(v, ast.DictComp) and len(v.generators) == 1 and isinstance(
                    v.generators[0].iter, ast.Call) and isinstance(
                        v.generators[0].iter.func, ast.Attribute) and \
                    v.generators[0].iter.func.attr == 'items':
                src = unparse(v.generators[0].iter.func.value)
                for c in v.generators[0].ifs:
                    for x in ast.walk(c):
                        if isinstance(x, ast.Compare) and isinstance(x.ops[0], (ast.NotEq, ast.NotIn)):
                            for y in ast.walk(x):
                                if isinstance(y, ast.Constant) and isinstance(y.value, str):
                                    removed.add(y.value)
            elif isinstance(v, ast.Call) and call_name(v) == 'dict' and len(v.args) == 1:
                src = unparse(v.args[0])
            elif isinstance(v, ast.Call) and isinstance(v.func, ast.Attribute) and \
                    v.func.attr == 'copy' and not v.args:
                src = unparse(v.func.value)
        for c in ast.walk(st) if not isinstance(st, (ast.If, ast.For, ast.While, ast.With)) else []:
            if isinstance(c, ast.Call) and isinstance(c.func, ast.Attribute) and \
                    c.func.attr == 'pop' and unparse(c.func.value) == name and c.args and \
                    isinstance(c.args[0], ast.Constant):
                removed.add(c.args[0].value)
        if isinstance(st, ast.Delete):
            for t in st.targets:
                if isinstance(t, ast.Subscript) and unparse(t.value) == name and isinstance(
                        t.slice, ast.Constant):
                    removed.add(t.slice.value)
    if src is not None and depth < 2:
        k2, r2 = _mapping_facts(nf, call, src, depth + 1)
        known |= k2
        removed_src = r2
        known -= removed_src
    return known - removed, removed


def check_resume_sequential(prog, rep):
    """RESUME-sequential: resume_from_checkpoint hands the options of the resumed simulation on to
    run_seq_simulations; keys known to be present in the `**mapping` must not collide with
    explicitly bound parameters (TypeError: the remaining simulations never run), and the file
    name generated for the resumed simulation must not be forwarded when it was generated from
    output_filename_params (the remaining simulations would derive their names from it)."""
    m = prog.module(SIM)
    f = m.functions.get('resume_from_checkpoint')
    g = m.functions.get('run_seq_simulations')
    if f is None or g is None:
        raise AnalysisError('resume_from_checkpoint / run_seq_simulations not found')
    rep.unit(m)
    nf = inline_temps(f, keep=('options', 'simulation_params'))
    calls = [c for c in ast.walk(nf) if isinstance(c, ast.Call) and
             call_name(c) == 'run_seq_simulations']
    if len(calls) != 1:
        raise AnalysisError('resume_from_checkpoint: call of run_seq_simulations not found')
    c = calls[0]
    a = g.args
    explicit = set()
    pos = [x.arg for x in a.posonlyargs + a.args]
    for p, v in zip(pos, c.args):
        explicit.add(p)
    for k in c.keywords:
        if k.arg is not None:
            explicit.add(k.arg)
    stars = [unparse(k.value) for k in c.keywords if k.arg is None]
    n = 0
    for name in stars:
        known, removed = _mapping_facts(nf, c, name)
        n += 1
        rep.instance('RESUME-sequential', {'call': key_text(c)[:80], 'mapping': name,
                                           'known_keys': sorted(known), 'removed': sorted(removed),
                                           'explicit': sorted(explicit)})
        for k in sorted(known & explicit):
            rep.violation('RESUME-sequential', m, 'resume_from_checkpoint', 'duplicate:' + k,
                          '`%s` passes `%s` explicitly and again through `**%s`, which is known '
                          'to contain that key here: TypeError (multiple values), the remaining '
                          'simulations of an interrupted sequence are never run' %
                          (unparse(c)[:60], k, name), c.lineno)
        # generated file name of the resumed simulation
        guarded_pop = False
        for st in stmts_of(nf):
            for x in ast.walk(st) if not isinstance(st, (ast.If, ast.For, ast.While, ast.With)) \
                    else []:
                if isinstance(x, ast.Call) and isinstance(x.func, ast.Attribute) and \
                        x.func.attr == 'pop' and x.args and isinstance(x.args[0], ast.Constant) \
                        and x.args[0].value == 'output_filename' and \
                        unparse(x.func.value) == name:
                    guarded_pop = any('output_filename_params' in t for t, _, _ in guards_of(nf, x))
            if isinstance(st, ast.Delete) and "['output_filename']" in unparse(st) and \
                    any('output_filename_params' in t for t, _, _ in guards_of(nf, st)):
                guarded_pop = True
        rep.instance('RESUME-sequential', {'mapping': name, 'generated_filename_dropped':
                                           guarded_pop})
        if not guarded_pop and 'output_filename' not in removed:
            rep.violation('RESUME-sequential', m, 'resume_from_checkpoint', 'filename-forwarded',
                          'the options of the resumed simulation contain the output_filename '
                          'generated for it (get_output_filename stores it); forwarded to '
                          'run_seq_simulations it becomes the prefix of the remaining '
                          'simulations: their results land in other files than in the '
                          'uninterrupted run', c.lineno)
    return n


# ------------------------------------------------------------------ init_state on resume
def _mutates_psi(ct, ci, f, depth=0):
    """does the method update self.psi in place (statement-level call on self.psi / on a local
    alias of it, a store into it) or call a method of self that does?"""
    alias = {'self.psi'}
    for st in stmts_of(f):
        if isinstance(st, ast.Assign) and len(st.targets) == 1 and isinstance(
                st.targets[0], ast.Name) and unparse(st.value) in alias:
            alias.add(st.targets[0].id)
    for st in stmts_of(f):
        if isinstance(st, ast.Expr) and isinstance(st.value, ast.Call) and isinstance(
                st.value.func, ast.Attribute):
            recv = st.value.func.value
            if unparse(recv) in alias:
                return True
            if isinstance(recv, ast.Name) and recv.id == 'self' and depth < 2:
                _, g = ct.resolve_method(ci, st.value.func.attr)
                if g is not None and g is not f and _mutates_psi(ct, ci, g, depth + 1):
                    return True
        for t in ([x for x in st.targets] if isinstance(st, ast.Assign) else []):
            if isinstance(t, ast.Subscript) and unparse(t.value) in alias:
                return True
    return False


def check_init_state_once(prog, rep):
    """RESUME-init-once: on resume psi comes from the checkpoint and init_state() runs again; any
    preparation that changes psi in place (applying the t=0 operator, a perturbation) must sit on
    the path where psi was freshly built, i.e. under `not hasattr(self, 'psi')`."""
    ct = prog.classtable()
    n = 0
    for ci in ct.all:
        if not ci.module.relpath.startswith('tenpy/simulations/'):
            continue
        f = ci.methods.get('init_state')
        if f is None:
            continue
        nf = inline_temps(f)
        for st in stmts_of(nf):
            if not (isinstance(st, ast.Expr) and isinstance(st.value, ast.Call) and isinstance(
                    st.value.func, ast.Attribute)):
                continue
            c = st.value
            recv = c.func.value
            hot = False
            if unparse(recv) == 'self.psi':
                hot = True
            elif isinstance(recv, ast.Name) and recv.id == 'self':
                _, g = ct.resolve_method(ci, c.func.attr)
                hot = g is not None and _mutates_psi(ct, ci, g)
            if not hot:
                continue
            gs = guards_of(nf, st)
            fresh = any(pmatch("hasattr(self, 'psi')", e) and not pol for _, pol, e in gs)
            n += 1
            rep.instance('RESUME-init-once', {'class': ci.name, 'call': key_text(st)[:70],
                                              'guards': [(t, p) for t, p, _ in gs]})
            if not fresh:
                rep.violation('RESUME-init-once', ci.module, ci.name + '.init_state',
                              'not-guarded:' + c.func.attr,
                              '`%s` changes psi in place but is not restricted to the path where '
                              'psi was freshly built (`not hasattr(self, \'psi\')`): when the '
                              'simulation is resumed, psi comes from the checkpoint and the '
                              'preparation is applied a second time to the evolved state' %
                              unparse(c)[:70], st.lineno)
    return n


def check_resume_forwarded(prog, rep):
    """RESUME-forward: an override that receives `resume_data` and delegates to the same method of
    its base class hands the resume data on (the base classes restore their part of the state
    from it: sweeps, evolved_time, environments, ...)."""
    from ..core import bound_args

    def params(fn):    # here: including keyword-only parameters
        a = fn.args
        return [x.arg for x in a.posonlyargs + a.args + a.kwonlyargs]
    ct = prog.classtable()
    n = 0
    for ci in ct.all:
        for name, f in ci.methods.items():
            named = 'resume_data' in params(f)
            if not named and f.args.kwarg is None:
                continue
            for c in body_nodes(f):
                if not (isinstance(c, ast.Call) and isinstance(c.func, ast.Attribute) and
                        c.func.attr == name):
                    continue
                skip_self = True
                if isinstance(c.func.value, ast.Call) and call_name(c.func.value) == 'super':
                    _, g = ct.resolve_method(ci, name, after=ci)
                elif isinstance(c.func.value, ast.Name) and c.args and isinstance(
                        c.args[0], ast.Name) and c.args[0].id == 'self' and any(
                            k.name == c.func.value.id for k in ci.mro[1:]):
                    bi = [k for k in ci.mro[1:] if k.name == c.func.value.id][0]
                    _, g = ct.resolve_method(bi, name)      # `Base.meth(self, ..)`
                    skip_self = False
                else:
                    continue
                if g is None or not ('resume_data' in params(g) or g.args.kwarg is not None):
                    continue
                if not named and (name != '__init__' or not any(
                        'resume_data' in params(k.methods['__init__']) for k in ci.mro
                        if '__init__' in k.methods)):
                    continue      # **kwargs not known to carry resume data
                ba = bound_args(c, g, skip_self=skip_self)
                v = ba.get('resume_data')
                has_star = any(k.arg is None for k in c.keywords) or any(
                    isinstance(a, ast.Starred) for a in c.args)
                ok = has_star or (v is not None and 'resume_data' in names_in(v))
                n += 1
                rep.instance('RESUME-forward', {'function': '%s.%s' % (ci.name, name),
                                                'super_call': unparse(c)[:70], 'forwards': ok})
                if not ok:
                    rep.violation('RESUME-forward', ci.module, '%s.%s' % (ci.name, name),
                                  'dropped:resume_data',
                                  '`%s` does not pass `resume_data` on: the base class restores '
                                  'its part of the checkpointed state from it (a resumed run '
                                  'restarts its counters / schedule instead of continuing)' %
                                  unparse(c)[:70], c.lineno)
    return n


def check_override_returns(prog, rep):
    """RESUME-return: a method of the simulation / algorithm classes that overrides a method whose
    base implementation returns a value, and delegates to it with a bare `super().m(..)`
    statement, drops that value: callers written against the base class (resume_from_checkpoint
    returning the results of resume_run) get None from the subclass."""
    ct = prog.classtable()

    def returns_value(fn):
        return any(r.value is not None and not (isinstance(r.value, ast.Constant) and
                                                r.value.value is None)
                   for r in ast.walk(fn) if isinstance(r, ast.Return))
    n = 0
    for ci in ct.all:
        if not (ci.module.relpath.startswith('tenpy/simulations/')):
            continue
        for name, f in ci.methods.items():
            if name == '__init__':
                continue
            _, g = ct.resolve_method(ci, name, after=ci)
            if g is None or not returns_value(g):
                continue
            n += 1
            bare = [st for st in stmts_of(f) if isinstance(st, ast.Expr) and isinstance(
                st.value, ast.Call) and isinstance(st.value.func, ast.Attribute) and
                st.value.func.attr == name and isinstance(st.value.func.value, ast.Call) and
                call_name(st.value.func.value) == 'super']
            rep.instance('RESUME-return', {'override': '%s.%s' % (ci.name, name),
                                           'returns_value': returns_value(f),
                                           'bare_super_calls': len(bare)})
            if bare and not returns_value(f):
                rep.violation('RESUME-return', ci.module, '%s.%s' % (ci.name, name),
                              'drops-return:' + name,
                              '`%s` delegates to the base implementation, which returns a value, '
                              'and drops it: %s.%s() returns None where the base class returns '
                              'the results' % (key_text(bare[0])[:60], ci.name, name),
                              bare[0].lineno)
    return n


def check_checkpoint_priorities(prog, rep):
    """RESUME-checkpoint-priority: listeners of the algorithm checkpoint run in descending
    priority. The listener that takes the measurements of a checkpoint must run BEFORE the one
    that saves the checkpoint (higher priority): otherwise the file on disk lacks that
    measurement and a run resumed from it has one measurement less than the uninterrupted run."""
    m = prog.module(SIM)
    ct = prog.classtable()
    ci = ct.get('Simulation')
    save_p, meas_p = None, None
    for name, f in ci.methods.items():
        inner = {g.name: g for g in ast.walk(f) if isinstance(g, ast.FunctionDef) and g is not f}
        for c in body_nodes(f):
            if not (isinstance(c, ast.Call) and isinstance(c.func, ast.Attribute) and
                    c.func.attr == 'connect' and unparse(c.func.value).endswith('.checkpoint')
                    and c.args):
                continue
            pr = kwarg(c, 'priority')
            if pr is None and len(c.args) > 1:
                pr = c.args[1]
            try:
                val = 0 if pr is None else ast.literal_eval(pr)
            except (ValueError, SyntaxError):
                raise AnalysisError('checkpoint.connect: priority `%s` is not a literal' %
                                    unparse(pr))
            target = c.args[0]
            what = None
            if is_self_attr(target) and 'save' in target.attr:
                what = 'save'
            elif isinstance(target, ast.Name) and target.id in inner and any(
                    isinstance(x, ast.Call) and isinstance(x.func, ast.Attribute) and
                    x.func.attr == 'make_measurements' for x in ast.walk(inner[target.id])):
                what = 'measure'
            elif is_self_attr(target) and 'measure' in target.attr:
                what = 'measure'
            if what == 'save':
                save_p = (val, c)
            elif what == 'measure':
                meas_p = (val, c)
    if save_p is None or meas_p is None:
        return 0        # RESUME-checkpoint-connected reports a missing listener
    ok = meas_p[0] > save_p[0]
    rep.instance('RESUME-checkpoint-priority', {'measure_priority': meas_p[0],
                                                'save_priority': save_p[0], 'ok': ok})
    if not ok:
        rep.violation('RESUME-checkpoint-priority', m, 'Simulation._connect_measurements',
                      'measure-after-save',
                      'the checkpoint measurements are connected with priority %s, the '
                      'checkpoint save with %s: listeners run in descending priority, so the '
                      'checkpoint is written before its measurement is taken and a resumed run '
                      'lacks it' % (meas_p[0], save_p[0]), meas_p[1].lineno)
    return 1


# ------------------------------------------------------------------ OPTIONS-readonly
_MUTATORS = {'update', 'pop', 'setdefault', 'append', 'extend', 'insert', 'remove', 'clear',
             'popitem', 'sort', 'reverse'}
_FRESH = {'dict', 'deepcopy', 'copy.deepcopy', 'copy.copy'}


def _options_derived_locals(g):
    """names of locals of g whose value is (an element of) something read from self.options"""
    def from_opts(e, names):
        # structural: the value IS (an element / a shallow re-packing of) what self.options holds;
        # the result of any other call (e.g. a file loaded from a name found in the options) is not
        if isinstance(e, ast.Name):
            return e.id in names
        if isinstance(e, ast.Call):
            if isinstance(e.func, ast.Attribute) and unparse(e.func.value) == 'self.options' and \
                    e.func.attr in ('get', 'subconfig', 'silent_get', 'setdefault'):
                return True
            if call_name(e) in ('list', 'tuple', 'sorted', 'reversed') and e.args:
                return from_opts(e.args[0], names)
            return False
        if isinstance(e, ast.Subscript):
            return unparse(e.value) == 'self.options' or from_opts(e.value, names)
        if isinstance(e, ast.BinOp) and isinstance(e.op, ast.Add):
            return from_opts(e.left, names) or from_opts(e.right, names)
        if isinstance(e, ast.IfExp):
            return from_opts(e.body, names) or from_opts(e.orelse, names)
        return False
    names = set()
    changed = True
    while changed:
        changed = False
        for st in ast.walk(g):
            tg = None
            if isinstance(st, ast.Assign) and len(st.targets) == 1 and isinstance(
                    st.targets[0], ast.Name):
                tg, src = st.targets[0].id, st.value
            elif isinstance(st, ast.For) and isinstance(st.target, ast.Name):
                tg, src = st.target.id, st.iter
            if tg and tg not in names and from_opts(src, names):
                names.add(tg)
                changed = True
    return names


def check_options_readonly(prog, rep):
    """OPTIONS-readonly: the simulation parameters are written into every checkpoint and are what a
    resumed simulation is built from. A method that receives an entry of these parameters (e.g. the
    kwargs dict of a `connect_measurements` entry) must not modify it in place: the resumed run
    would be configured differently from the uninterrupted one."""
    from ..flow import reaching_defs
    ct = prog.classtable()
    n = 0
    for rel in ('tenpy/simulations/simulation.py', 'tenpy/simulations/time_evolution.py',
                'tenpy/simulations/ground_state_search.py',
                'tenpy/simulations/post_processing.py'):
        m = prog.module(rel)
        for gq, g in m.functions.items():
            if '.' not in gq:
                continue
            cname = gq.split('.')[0]
            ci = ct.lookup(cname, m)
            if ci is None:
                continue
            opt = _options_derived_locals(g)
            for c in ast.walk(g):
                if not (isinstance(c, ast.Call) and isinstance(c.func, ast.Attribute)):
                    continue
                starred = [a for a in c.args if isinstance(a, ast.Starred) and isinstance(
                    a.value, ast.Name) and a.value.id in opt]
                direct = [(i, a) for i, a in enumerate(c.args) if isinstance(a, ast.Name)
                          and a.id in opt]
                if not starred and not direct:
                    continue
                if unparse(c.func.value) == 'self':
                    owner, f = ct.resolve_method(ci, c.func.attr)
                else:
                    # another receiver: the method name must identify one definition
                    defs = [(k, k.methods[c.func.attr]) for k in ct.all
                            if c.func.attr in k.methods]
                    owner, f = defs[0] if len(defs) == 1 else (None, None)
                if f is None:
                    continue
                ps = [p for p in params(f) if p not in ('self', 'cls')]
                if starred:
                    first = min(i for i, a in enumerate(c.args) if isinstance(a, ast.Starred))
                    owned = set(ps[first:])
                else:
                    owned = {ps[i] for i, _ in direct if i < len(ps)}
                if not owned:
                    continue
                cfg, rd = reaching_defs(f)
                bad = []
                for st in stmts_of(f):
                    if isinstance(st, (ast.If, ast.For, ast.While, ast.Try, ast.With)):
                        continue
                    for x in ast.walk(st):
                        nm = None
                        if isinstance(x, ast.Subscript) and isinstance(
                                x.ctx, (ast.Store, ast.Del)) and isinstance(x.value, ast.Name):
                            nm = x.value.id
                        elif isinstance(x, ast.Call) and isinstance(x.func, ast.Attribute) and \
                                x.func.attr in _MUTATORS and isinstance(x.func.value, ast.Name):
                            nm = x.func.value.id
                        elif isinstance(x, ast.AugAssign) and isinstance(x.target, ast.Name):
                            nm = x.target.id if isinstance(x.op, (ast.BitOr, ast.Add)) else None
                        if nm in owned and any('<param>' in dict(rd.get(nd.id, ())).get(nm, ())
                                               for nd in cfg.nodes_of(st)):
                            bad.append((st, nm))
                n += 1
                fq = '%s.%s' % (getattr(owner, 'name', cname), f.name)
                rep.instance('OPTIONS-readonly', {'caller': gq, 'callee': fq,
                                                  'owned_params': sorted(owned),
                                                  'in_place_writes': len(bad)})
                for st, nm in bad:
                    rep.violation('OPTIONS-readonly', prog.module(getattr(
                        getattr(owner, 'module', None), 'relpath', rel)), fq,
                        'writes-option-entry:%s' % nm,
                        '`%s` modifies `%s`, which %s passes in from the simulation parameters '
                        '(self.options); they are saved in every checkpoint, so the resumed '
                        'simulation is configured without / with the changed entry'
                        % (key_text(st)[:60], nm, gq), st.lineno)
    return n


# ------------------------------------------------------------------ RESUME-empty-stats
def check_empty_stats(prog, rep):
    """RESUME-empty-stats: a resumed engine restores `sweeps` but starts with the empty statistics
    of reset_stats(); IterativeSweeps.run() asks stopping_criterion() -> is_converged() BEFORE the
    first iteration. Every read of the last entry of a statistics list (`self.sweep_stats[k][-1]`,
    `self.update_stats[k][-1]`) in a method reachable from stopping_criterion is therefore
    dominated by an emptiness test of such a list (typestate: lists are EMPTY until
    run_iteration ran)."""
    ct = prog.classtable()
    base = ct.get('IterativeSweeps')
    if base is None:
        raise AnalysisError('class IterativeSweeps not found')
    n = 0
    seen = set()
    for ci in ct.cone(base):
        for start in ('stopping_criterion', 'is_converged'):
            owner, f = ct.resolve_method(ci, start)
            if f is None or id(f) in seen:
                continue
            seen.add(id(f))
            try:
                f = inline_temps(f, aliases_only=True)   # `stats = self.sweep_stats`
            except Exception:
                pass
            reads = []
            for st in stmts_of(f):
                if isinstance(st, (ast.If, ast.For, ast.While, ast.Try, ast.With)):
                    continue
                for x in ast.walk(st):
                    if isinstance(x, ast.Subscript) and isinstance(x.value, ast.Subscript) and \
                            unparse(x.value.value) in ('self.sweep_stats', 'self.update_stats') and \
                            unparse(x.slice) == '-1' and isinstance(x.ctx, ast.Load):
                        reads.append((st, x))
            if not reads:
                continue
            cfg = CFG(f)

            def guard(nd):
                s = nd.stmt
                if not isinstance(s, ast.If):
                    return False
                t = unparse(s.test)
                return ('len(self.sweep_stats[' in t or 'len(self.update_stats[' in t or
                        'not self.sweep_stats[' in t or 'not self.update_stats[' in t)
            for st, x in reads:
                n += 1
                ok = cfg.dominators_like_before(st, guard)
                rep.instance('RESUME-empty-stats', {'function': '%s.%s' % (owner.name, f.name),
                                                    'read': unparse(x), 'guarded': ok})
                if not ok:
                    rep.violation('RESUME-empty-stats', owner.module, '%s.%s' % (owner.name, f.name),
                                  'unguarded-last:' + unparse(x),
                                  '`%s` is read on a path without an emptiness test of the '
                                  'statistics: run() calls stopping_criterion() -> is_converged() '
                                  'before the first sweep, and a resumed engine (sweeps restored, '
                                  'statistics reset) raises IndexError here' % unparse(x),
                                  x.lineno)
    return n


# ------------------------------------------------------------------ RESUME-accumulators
def check_resume_accumulators(prog, rep):
    """RESUME-accumulators: an attribute that an algorithm accumulates over its run
    (`self.X = self.X + e` / `self.X += e` outside __init__: sweeps, evolved_time, trunc_err) is
    state of the computation; an engine rebuilt from a checkpoint starts it from its initial value
    unless get_resume_data (along the MRO) stores it. Every such accumulator of a class with a
    get_resume_data is therefore among the stored keys."""
    ct = prog.classtable()
    base = ct.get('Algorithm')
    n = 0
    for ci in ct.cone(base):
        saved = set()
        has = False
        for c in ci.mro:
            g = c.methods.get('get_resume_data')
            if g is None:
                continue
            has = True
            for st in ast.walk(g):
                if isinstance(st, ast.Assign):
                    for t in st.targets:
                        if isinstance(t, ast.Subscript) and isinstance(t.slice, ast.Constant) and \
                                isinstance(t.value, ast.Name):
                            saved.add(t.slice.value)
                    if isinstance(st.value, ast.Dict):
                        saved.update(k.value for k in st.value.keys if isinstance(k, ast.Constant))
                saved.update(_update_keys(st))
        if not has:
            continue
        for name, f in ci.methods.items():
            if name == '__init__':
                continue
            for st in stmts_of(f):
                a = None
                if isinstance(st, ast.AugAssign) and isinstance(st.op, ast.Add) and \
                        is_self_attr(st.target):
                    a = st.target.attr
                if isinstance(st, ast.Assign) and len(st.targets) == 1 and is_self_attr(
                        st.targets[0]) and isinstance(st.value, ast.BinOp) and isinstance(
                            st.value.op, ast.Add) and any(
                                is_self_attr(x) and x.attr == st.targets[0].attr
                                for x in (st.value.left, st.value.right)):
                    a = st.targets[0].attr
                if a is None:
                    continue
                n += 1
                rep.instance('RESUME-accumulators', {'class': ci.name, 'method': name,
                                                     'accumulator': a, 'saved': a in saved})
                if a not in saved:
                    rep.violation('RESUME-accumulators', ci.module, '%s.%s' % (ci.name, name),
                                  'accumulator-not-saved:' + a,
                                  '`%s` accumulates self.%s over the run, but get_resume_data '
                                  '(along the MRO of %s) stores only %s: an engine resumed from a '
                                  'checkpoint restarts it from its initial value' %
                                  (key_text(st)[:60], a, ci.name, sorted(saved)), st.lineno)
    return n


# ------------------------------------------------------------------ round-5: ordering around shared resume state
def check_resume_ordering(prog, rep):
    """RESUME-read-before-consume: Simulation.init_algorithm consumes `self.results['resume_data']`
    (clear + del; fact read off its body). An override that needs something out of it reads it
    BEFORE delegating to super().init_algorithm(..).
    RESUME-seq-index: run_seq_simulations stores the index of the running simulation into the
    `sequential` dict that is part of `simulation_params`; the parameters of each simulation are a
    deep copy of `simulation_params`, saved in its checkpoints and incremented on resume. The store
    `sequential['index'] = index` therefore precedes that deep copy inside the loop."""
    n = 0
    ct = prog.classtable()
    base = ct.get('Simulation')
    bi = base.methods['init_algorithm']
    consumes = any(isinstance(st, ast.Delete) and "self.results['resume_data']" in unparse(st)
                   for st in ast.walk(bi))
    rep.instance('RESUME-read-before-consume', {'fact': 'Simulation.init_algorithm deletes '
                                                "self.results['resume_data']", 'holds': consumes})
    if consumes:
        for ci in ct.cone(base):
            if ci is base:
                continue
            f = ci.methods.get('init_algorithm')
            if f is None:
                continue
            sup = [c.lineno for c in ast.walk(f) if isinstance(c, ast.Call) and
                   unparse(c.func) == 'super().init_algorithm']
            reads = [x.lineno for x in ast.walk(f) if isinstance(x, ast.Subscript) and
                     unparse(x) == "self.results['resume_data']" and isinstance(x.ctx, ast.Load)]
            if not sup or not reads:
                continue
            n += 1
            ok = max(reads) < min(sup)
            rep.instance('RESUME-read-before-consume', {'class': ci.name, 'reads': reads,
                                                        'super_call': sup, 'ok': ok})
            if not ok:
                rep.violation('RESUME-read-before-consume', ci.module, ci.name + '.init_algorithm',
                              'read-after-super', "self.results['resume_data'] is read (line %d) "
                              'after super().init_algorithm() (line %d), which clears and deletes '
                              'it: the data for the second engine are never found, it restarts '
                              'from evolved_time 0 on the checkpointed state'
                              % (max(reads), min(sup)), max(reads))
    m = prog.module('tenpy/simulations/simulation.py')
    f = m.func('run_seq_simulations')
    for lp in ast.walk(f):
        if not isinstance(lp, ast.For):
            continue
        store = [st for st in lp.body if isinstance(st, ast.Assign) and
                 unparse(st.targets[0]) == "sequential['index']"]
        copy_ = [st for st in lp.body if isinstance(st, ast.Assign) and isinstance(
            st.value, ast.Call) and unparse(st.value.func) in ('copy.deepcopy', 'deepcopy') and
            'simulation_params' in unparse(st.value)]
        if not store or not copy_:
            continue
        n += 1
        ok = store[0].lineno < copy_[0].lineno
        rep.instance('RESUME-seq-index', {'store': key_text(store[0]), 'copy': key_text(copy_[0])[:50],
                                          'ok': ok})
        if not ok:
            rep.violation('RESUME-seq-index', m, 'run_seq_simulations', 'index-after-copy',
                          '`%s` comes after `%s`: the copied parameters (saved in the checkpoints '
                          'of this simulation) carry the index of the PREVIOUS simulation, a '
                          'resume repeats the interrupted one' %
                          (key_text(store[0]), key_text(copy_[0])[:50]), store[0].lineno)
    return n
