"""C13 — variational ground-state search: protocol facts of the sweep framework (R-HOOKS),
handling of explicit_plus_hc at every construction of an effective Hamiltonian (R-HCFLAG),
environment index pairing. Energies, convergence and canonical form of results are numerical and
not decided."""
import ast

from ..core import (AnalysisError, kwarg, local_defs, body_nodes, call_name, dotted, is_self_attr, key_text, names_in,
                    params, parent, stmts_of, unparse)
from ..dtable import run_paths, subst
from ..dtable import _val as dval
from ..normal import inline_temps
from ..pattern import find, guards_of, pmatch
from ..linform import NotPoly, Poly, eval_poly

DMRG = 'tenpy/algorithms/dmrg.py'
MC = 'tenpy/algorithms/mps_common.py'
FILES = ['tenpy/algorithms/mps_common.py', 'tenpy/algorithms/dmrg.py', 'tenpy/algorithms/tdvp.py',
         'tenpy/algorithms/vumps.py', 'tenpy/algorithms/dmrg_parallel.py',
         'tenpy/algorithms/plane_wave_excitation.py', 'tenpy/simulations/ground_state_search.py',
         'tenpy/algorithms/purification.py']
HEFF_CTORS = {'OneSiteH', 'TwoSiteH', 'ZeroSiteH', 'EffectiveH', 'from_LP_RP'}


def _dict_keys(ct, cls, f, depth=0):
    """keys of the dict(s) returned by f; (keys, opaque?)"""
    keys = set()
    names = set()
    opaque = False
    for r in body_nodes(f):
        if isinstance(r, ast.Return) and r.value is not None:
            v = r.value
            if isinstance(v, ast.Dict):
                keys |= {k.value for k in v.keys if isinstance(k, ast.Constant)}
            elif isinstance(v, ast.Name):
                names.add(v.id)
            elif isinstance(v, ast.Call) and isinstance(v.func, ast.Attribute) and is_self_attr(
                    v.func) and depth < 2:
                o, g = ct.resolve_method(cls, v.func.attr)
                if g is not None:
                    k2, op2 = _dict_keys(ct, cls, g, depth + 1)
                    keys |= k2
                    opaque = opaque or op2
                else:
                    opaque = True
            else:
                opaque = True
    for st in stmts_of(f):
        if isinstance(st, ast.Assign):
            t = st.targets[0]
            if isinstance(t, ast.Name) and t.id in names:
                if isinstance(st.value, ast.Dict):
                    keys |= {k.value for k in st.value.keys if isinstance(k, ast.Constant)}
                elif isinstance(st.value, ast.Call) and call_name(st.value) == 'dict':
                    keys |= {k.arg for k in st.value.keywords if k.arg}
                else:
                    opaque = True
            if isinstance(t, ast.Subscript) and isinstance(t.value, ast.Name) and \
                    t.value.id in names and isinstance(t.slice, ast.Constant):
                keys.add(t.slice.value)
    return keys, opaque


def check_hooks(prog, rep):
    ct = prog.classtable()
    sw = ct.get('Sweep')
    n = 0
    for ci in sorted(ct.cone(sw), key=lambda c: c.name):
        o1, ul = ct.resolve_method(ci, 'update_local')
        o2, ue = ct.resolve_method(ci, 'update_env')
        o3, pu = ct.resolve_method(ci, 'post_update_local')
        if ul is None or o1 is sw:
            continue  # abstract
        rep.unit(ci.module)
        keys, opaque = _dict_keys(ct, ci, ul)
        need = [a.arg for a in pu.args.args[1:]]
        env_reads = {s.slice.value for s in ast.walk(ue) if isinstance(s, ast.Subscript) and
                     unparse(s.value) == 'update_data' and isinstance(s.slice, ast.Constant)}
        n += 1
        rep.instance('HOOKS-keys', {'class': ci.name, 'update_local': o1.name,
                                    'returns': sorted(keys), 'post_update_local': o3.name,
                                    'needs': need, 'update_env': o2.name,
                                    'reads': sorted(env_reads)})
        if opaque:
            continue
        miss = [k for k in need if k not in keys]
        if miss:
            rep.violation('HOOKS-keys', o1.module, '%s.update_local' % o1.name,
                          'missing-key:%s:%s' % (ci.name, ','.join(miss)),
                          'for engine %s, Sweep.sweep calls %s.post_update_local(**update_data) '
                          'which requires %s, but %s.update_local returns only %s: TypeError in '
                          'every sweep of that engine' %
                          (ci.name, o3.name, miss, o1.name, sorted(keys)), ul.lineno)
        miss = sorted(k for k in env_reads if k not in keys)
        if miss:
            rep.violation('HOOKS-keys', o1.module, '%s.update_local' % o1.name,
                          'missing-env-key:%s:%s' % (ci.name, ','.join(miss)),
                          'for engine %s, %s.update_env reads update_data%s which '
                          '%s.update_local does not return: KeyError when the environment is '
                          'updated' % (ci.name, o2.name, miss, o1.name), ul.lineno)
    return n


def _len_poly(node):
    """symbolic length of a list expression"""
    if isinstance(node, ast.Call) and dotted(node.func) == 'list' and node.args:
        return _len_poly(node.args[0])
    if isinstance(node, ast.Call) and dotted(node.func) == 'range':
        a = [eval_poly(x, {}) for x in node.args]
        if len(a) == 1:
            return a[0]
        if len(a) == 2:
            return a[1] - a[0]
        if len(a) == 3 and a[2] == Poly.const(-1):
            return a[0] - a[1]
        if len(a) == 3 and a[2] == Poly.const(1):
            return a[1] - a[0]
        raise NotPoly('range step')
    if isinstance(node, ast.List):
        return Poly.const(len(node.elts))
    if isinstance(node, ast.BinOp) and isinstance(node.op, ast.Add):
        return _len_poly(node.left) + _len_poly(node.right)
    if isinstance(node, ast.BinOp) and isinstance(node.op, ast.Mult):
        try:
            return _len_poly(node.left) * eval_poly(node.right, {})
        except NotPoly:
            return eval_poly(node.left, {}) * _len_poly(node.right)
    raise NotPoly(unparse(node))


def check_schedules(prog, rep):
    ct = prog.classtable()
    sw = ct.get('Sweep')
    seen = set()
    n = 0
    for ci in ct.cone(sw):
        f = ci.methods.get('get_sweep_schedule')
        if f is None or id(f) in seen:
            continue
        seen.add(id(f))
        q = ci.name + '.get_sweep_schedule'
        # groups of assignments to the zipped names, per branch (same parent block)
        zips = [c for c in body_nodes(f) if isinstance(c, ast.Call) and dotted(c.func) == 'zip']
        if not zips:
            continue
        zn = [unparse(a) for a in zips[0].args]
        blocks = {}
        for st in stmts_of(f):
            if isinstance(st, ast.Assign) and unparse(st.targets[0]) in zn:
                blocks.setdefault(id(parent(st)), []).append(st)
        for blk in blocks.values():
            lens = {}
            for st in blk:
                try:
                    lens[unparse(st.targets[0])] = _len_poly(st.value)
                except NotPoly:
                    lens[unparse(st.targets[0])] = None
            n += 1
            rep.instance('HOOKS-schedule', {'function': q,
                                            'lengths': {k: repr(v) for k, v in lens.items()}})
            known = {k: v for k, v in lens.items() if v is not None}
            vals = list(known.values())
            if len(known) >= 2 and any(v != vals[0] for v in vals[1:]):
                rep.violation('HOOKS-schedule', ci.module, q,
                              'zip-length:' + ','.join(sorted(known)),
                              'the zipped schedule lists have different lengths %s: zip() '
                              'silently truncates, so bonds at the end of the sweep are skipped' %
                              {k: repr(v) for k, v in known.items()}, blk[0].lineno)
    return n


def check_hcflag_sites(prog, rep):
    """every constructed effective Hamiltonian is wrapped in H + H^dagger when the MPO keeps the
    Hermitian conjugate implicit (or the function asserts the flag)"""
    n = 0
    for rel in FILES:
        try:
            m = prog.module(rel)
        except AnalysisError:
            continue
        for q, f in m.functions.items():
            for st in stmts_of(f):
                if not (isinstance(st, ast.Assign) and isinstance(st.value, ast.Call)):
                    continue
                cn = call_name(st.value)
                d = dotted(st.value.func) or ''
                if cn not in HEFF_CTORS:
                    continue
                if cn == 'from_LP_RP' and 'ZeroSiteH' not in d:
                    continue
                if cn == 'EffectiveH' and not d.startswith('self.'):
                    continue
                tgt = unparse(st.targets[0])
                n += 1
                rep.instance('HCFLAG-heff', {'function': q, 'construction': key_text(st)[:70]})
                rep.unit(m)
                ok = False
                for s2 in ast.walk(f):
                    if isinstance(s2, ast.If) and 'explicit_plus_hc' in unparse(s2.test) and \
                            s2.lineno >= st.lineno:
                        for b in s2.body:
                            if isinstance(b, ast.Assign) and unparse(b.targets[0]) == tgt and \
                                    'SumNpcLinearOperator(%s, %s.adjoint())' % (tgt, tgt) in \
                                    unparse(b.value):
                                ok = True
                    if isinstance(s2, ast.Assert) and 'explicit_plus_hc' in unparse(s2.test):
                        ok = True
                if not ok:
                    rep.violation('HCFLAG-heff', m, q, 'heff-without-hc:' + tgt,
                                  '`%s` builds an effective Hamiltonian from an MPO environment '
                                  'but the function never adds its adjoint when '
                                  'H.explicit_plus_hc is set: for such MPOs only half of the '
                                  'Hamiltonian is optimised / evolved' % key_text(st)[:70],
                                  st.lineno)
    return n


def check_env_pairing(prog, rep):
    m = prog.module(MC)
    f = m.func('Sweep.update_env')
    rep.instance('HOOKS-env-pairing', {'function': 'Sweep.update_env'})
    why = None
    ind = find('$l, $r = self._update_env_inds()', f)
    if len(ind) != 1:
        why = 'the updated pair (i_L, i_R) must come from self._update_env_inds()'
    else:
        L_, R_ = ind[0][1]['$l'], ind[0][1]['$r']
        need = [('$$e.del_LP(%s)' % R_, 'left parts up to i_R are outdated: del_LP(i_R)'),
                ('$$e.del_RP(%s)' % L_, 'right parts from i_L are outdated: del_RP(i_L)'),
                ("self.eff_H.update_LP(self.env, %s, update_data['U'])" % R_,
                 'LP of i_R is rebuilt from U'),
                ("self.eff_H.update_RP(self.env, %s, update_data['VH'])" % L_,
                 'RP of i_L is rebuilt from VH')]
        for pat, what in need:
            if not find(pat, f):
                why = what
        for wrong in ('$$e.del_LP(%s)' % L_, '$$e.del_RP(%s)' % R_,
                      "self.eff_H.update_LP(self.env, %s, $$u)" % L_,
                      "self.eff_H.update_RP(self.env, %s, $$u)" % R_):
            if find(wrong, f):
                why = 'LP/RP paired with the wrong index (`%s`)' % wrong
        # the rebuilds are conditional on the matching flag of update_LP_RP
        fl = find('$ul, $ur = self.update_LP_RP', f)
        if fl and why is None:
            ul_, ur_ = fl[0][1]['$ul'], fl[0][1]['$ur']
            for pat, flag in (("self.eff_H.update_LP(self.env, %s, update_data['U'])" % R_, ul_),
                              ("self.eff_H.update_RP(self.env, %s, update_data['VH'])" % L_, ur_)):
                for node, _ in find(pat, f):
                    st = node
                    while not isinstance(st, ast.stmt):
                        st = parent(st)
                    if (flag, True) not in [(t, pol) for t, pol, _ in guards_of(f, st)]:
                        why = '`%s` must be conditional on `%s`' % (unparse(node)[:50], flag)
    if why:
        rep.violation('HOOKS-env-pairing', m, 'Sweep.update_env', 'env-indices',
                      'after updating sites (i_L, i_R): LP on i_R (from U) and RP on i_L (from VH) '
                      'are outdated and must be deleted / recomputed with exactly these indices: '
                      + why, f.lineno)
    g = m.func('Sweep._update_env_inds')
    rep.instance('HOOKS-env-pairing', {'function': 'Sweep._update_env_inds'})
    body = [s for s in g.body if not (isinstance(s, ast.Expr) and isinstance(s.value, ast.Constant))]
    i0 = Poly.sym('self.i0')
    for n_opt in (1, 2):
        for mv in (True, False):
            want = (i0, i0 + Poly.const(1)) if (n_opt == 2 or mv) else (i0 - Poly.const(1), i0)
            got = []
            for p in run_paths(body, {'self.n_optimize': n_opt, 'self.move_right': mv}):
                if p.outcome != 'return':
                    got.append(p.outcome)
                    continue
                v = subst(p.value, p.env)
                try:
                    got.append(tuple(eval_poly(e, {}) for e in v.elts)
                               if isinstance(v, ast.Tuple) else unparse(v))
                except NotPoly:
                    got.append(unparse(v))
            rep.instance('HOOKS-env-pairing', {'n_optimize': n_opt, 'move_right': mv,
                                               'inds': [repr(x) for x in got]})
            if got != [want]:
                rep.violation('HOOKS-env-pairing', m, 'Sweep._update_env_inds', 'inds',
                              '(i_L, i_R) = (i0, i0+1) for two-site or right-moving updates, '
                              '(i0-1, i0) otherwise; for n_optimize=%d, move_right=%s the function '
                              'gives %s' % (n_opt, mv, [repr(x) for x in got]), g.lineno)
    # order in sweep(): update_local before update_env before post_update_local
    s = m.func('Sweep.sweep')
    rep.instance('HOOKS-env-pairing', {'function': 'Sweep.sweep'})
    order = []
    for c in body_nodes(s):
        if isinstance(c, ast.Call) and is_self_attr(c.func) and c.func.attr in (
                'prepare_update_local', 'update_local', 'update_env', 'post_update_local',
                'free_no_longer_needed_envs'):
            order.append((c.lineno, c.func.attr))
    names = [nm for _, nm in sorted(order)]
    if names != ['prepare_update_local', 'update_local', 'update_env', 'post_update_local',
                 'free_no_longer_needed_envs']:
        rep.violation('HOOKS-env-pairing', m, 'Sweep.sweep', 'hook-order',
                      'each step must run prepare_update_local, update_local, update_env, '
                      'post_update_local, free_no_longer_needed_envs in this order (got %s)' %
                      names, s.lineno)
    # wrapper order in make_eff_H: Sum(H, H^dagger) inside the orthogonal projection
    h = m.func('Sweep.make_eff_H')
    rep.instance('HOOKS-wrapper-order', {})
    sums = [x.lineno for x in ast.walk(h) if isinstance(x, ast.Call) and
            call_name(x) == 'SumNpcLinearOperator']
    orth = [x.lineno for x in ast.walk(h) if isinstance(x, ast.Call) and
            call_name(x) == '_wrap_ortho_eff_H']
    if not sums or not orth or min(orth) < max(sums):
        rep.violation('HOOKS-wrapper-order', m, 'Sweep.make_eff_H', 'wrapper-order',
                      'the projection onto the orthogonal complement must be the outermost '
                      'wrapper (applied after adding the adjoint)', h.lineno)
    # mixers: weight of the identity channels depends on the flag
    mx = m.func('_mix_LR') if m.has_func('_mix_LR') else None
    if mx is not None:
        rep.instance('HCFLAG-mixer', {})
        body = [s2 for s2 in mx.body if not (isinstance(s2, ast.Expr) and
                                             isinstance(s2.value, ast.Constant))]
        okm = True
        for flag, want in ((True, 0.5), (False, 1.0)):
            vals = set()
            for p_ in run_paths(body, {'H.explicit_plus_hc': flag, 'IdL is not None': True,
                                       'IdR is not None': True, 'IdL is None': False,
                                       'IdR is None': False}):
                for st in p_.trace:
                    for tg, v in ((t, st.value) for t in getattr(st, 'targets', [])
                                  if isinstance(st, ast.Assign)):
                        if isinstance(tg, ast.Subscript) and unparse(tg) in (
                                'mix_L[IdL]', 'mix_R[IdR]') or (
                                isinstance(tg, ast.Subscript) and
                                unparse(tg.slice) in ('IdL', 'IdR') and
                                unparse(tg.value)[-1:] == unparse(tg.slice)[-1:]):
                            vals.add(dval(v, {'H.explicit_plus_hc': flag}, p_.env))
            if vals != {want}:
                okm = False
        if not okm:
            rep.violation('HCFLAG-mixer', m, '_mix_LR', 'mixer-weight',
                          'with explicit_plus_hc the identity channels of the mixer carry weight '
                          '0.5 (the other half comes from the adjoint)', mx.lineno)


def check_block_dtype(prog, rep):
    """dmrg.py / mps_common.py: a block created with get_block(.., insert=True) has the dtype of
    the tensor it is inserted into. When that tensor was made with X.zeros_like() and the data
    written into the block come from another array (the eigenvectors of the effective
    Hamiltonian), the tensor's dtype must first be promoted with the dtype of that source --
    otherwise a complex eigenvector is truncated to its real part."""
    from ..cfg import CFG
    n = 0
    for rel in (DMRG, MC):
        m = prog.module(rel)
        for q, f in m.functions.items():
            ins = [(st, e) for st in stmts_of(f) if isinstance(st, ast.Assign)
                   for e in [pmatch('$b = $t.get_block($$idx, insert=True)', st)] if e]
            for st, e in ins:
                t, b = e['$t'], e['$b']
                made = [s2 for s2 in stmts_of(f) if pmatch('%s = $$src.zeros_like()' % t, s2)]
                if not made:
                    continue
                like = unparse(pmatch('%s = $$src.zeros_like()' % t, made[0])['$$src'])
                # data written into the block, and the arrays they are computed from
                writes = [s2 for s2 in stmts_of(f) if isinstance(s2, ast.Assign) and any(
                    isinstance(tg, ast.Subscript) and unparse(tg.value) == b for tg in s2.targets)]
                defs = local_defs(f)
                srcs = set()
                for w in writes:
                    todo = list(names_in(w.value))
                    seen = set()
                    while todo:
                        nm = todo.pop()
                        if nm in seen:
                            continue
                        seen.add(nm)
                        for v in defs.get(nm, []):
                            todo.extend(names_in(v))
                    srcs |= seen
                others = sorted(x for x in srcs if x in params(f) or any(
                    isinstance(v, ast.Call) and isinstance(v.func, ast.Attribute) and
                    v.func.attr in ('to_matrix', 'get_block', 'to_ndarray')
                    for v in defs.get(x, [])))
                others = [x for x in others if x != like and x != t]
                n += 1
                rep.instance('ED-block-dtype', {'function': q, 'tensor': t, 'like': like,
                                                'block_data_from': others})
                if not others:
                    continue
                cfg = CFG(f)

                def promoted(nd, t=t, others=others):
                    s2 = nd.stmt
                    if not isinstance(s2, ast.Assign) or unparse(s2.targets[0]) != t + '.dtype':
                        return False
                    v = unparse(s2.value)
                    return any(k in v for k in ('promote_types', 'result_type',
                                                'find_common_type')) and any(
                        (o + '.dtype') in v for o in others)

                if not cfg.dominators_like_before(st, promoted):
                    rep.violation('ED-block-dtype', m, q, 'no-promotion:' + t,
                                  '`%s` inserts a block into `%s` (made by %s.zeros_like(), so of '
                                  'its dtype) and fills it with data computed from %s, but '
                                  '`%s.dtype` is not promoted with the dtype of that source '
                                  'before: complex eigenvectors of a complex effective Hamiltonian '
                                  'lose their imaginary part when the guess is real' %
                                  (key_text(st)[:70], t, like, ', '.join(others), t), st.lineno)
    return n


def run(prog, rep, tier):
    rep.rule('HOOKS-keys', 'per concrete Sweep subclass (MRO-resolved): the dict returned by '
             'update_local has a key for every named parameter of post_update_local and every '
             'update_data[...] read of update_env')
    rep.rule('HOOKS-schedule', 'zipped schedule lists have equal symbolic length (polynomials in '
             'L, n)')
    rep.rule('HCFLAG-heff', 'every construction of an effective Hamiltonian is followed by the '
             'explicit_plus_hc wrap (or an assertion on the flag)')
    rep.rule('HOOKS-env-pairing / wrapper-order / mixer', 'environment index pairing, hook order, '
             'orthogonal projection outermost')
    rep.rule('ED-block-dtype', 'a tensor made by zeros_like() whose inserted block receives data '
             'from another array has its dtype promoted first (must-precede on the CFG)')
    n1 = check_hooks(prog, rep)
    n2 = check_schedules(prog, rep)
    n3 = check_hcflag_sites(prog, rep)
    check_env_pairing(prog, rep)
    if check_block_dtype(prog, rep) < 1:
        raise AnalysisError('ED-block-dtype: the block insertion of full_diag_effH was not found')
    rep.rule('MPO-bond-coherence', 'IdL / IdR / bond dimension used on one per-bond array '
             'belong to the same MPO bond (index polynomials)')
    rep.rule('HEFF-adjoint', 'adjoint() conjugates every tensor that matvec / to_matrix contract')
    rep.rule('HEFF-conditional-attr', 'attributes bound only under a flag of the object are '
             'read under the same test')
    if check_conditional_attrs(prog, rep) < 4:
        raise AnalysisError('HEFF-conditional-attr: LHeff / RHeff of OneSiteH not found')
    rep.rule('HOOKS-final-canonical', 're-measured norm errors reach the final canonical_form() test')
    if check_final_canonical(prog, rep) < 2:
        raise AnalysisError('HOOKS-final-canonical: re-measurement of the norm error not found')
    if check_heff_adjoint(prog, rep) < 2:
        raise AnalysisError('HEFF-adjoint: adjoint() of OneSiteH / TwoSiteH not found')
    if check_bond_coherence(prog, rep) < 2:
        raise AnalysisError('MPO-bond-coherence: the per-bond arrays of _mix_LR were not found')
    rep.floor('HOOKS-keys', 8)
    rep.floor('HOOKS-schedule', 5)
    rep.floor('HCFLAG-heff', 8)
    rep.assumptions += ['energies, convergence, canonical form of results are NOT decided']
    from ..flow import check_dead_computations
    rep.rule('VALUE-dead', 'no result of a call is bound to a local that is never read (reaching '
             'definitions)')
    check_dead_computations(prog, rep, ['tenpy/algorithms/mps_common.py', 'tenpy/algorithms/dmrg.py', 'tenpy/algorithms/vumps.py'])
    from ..flow import check_undefined_attrs
    rep.rule('ATTR-defined', 'every self.X read names an attribute bound somewhere in the class family')
    check_undefined_attrs(prog, rep, ['tenpy/algorithms/mps_common.py', 'tenpy/algorithms/dmrg.py', 'tenpy/algorithms/vumps.py'])
    from ..labels import check_labels
    rep.rule('LABEL-known', 'typestate of leg-label sets: literal labels used on a local tensor '
             'whose complete label set is known (literal transposition, contractions) exist on it')
    check_labels(prog, rep, ['tenpy/algorithms/mps_common.py', 'tenpy/algorithms/dmrg.py', 'tenpy/algorithms/vumps.py'])
    rep.rule('HOOKS-mix-side', 'one-site fallback calls of mix_and_decompose_2site run under the flag '
             'that fits their move_right argument')
    if check_mix_sides(prog, rep) < 4:
        raise AnalysisError('HOOKS-mix-side: fewer than 4 one-site fallback calls')
    if check_to_mps_canonical(prog, rep) < 1:
        raise AnalysisError('HOOKS-final-canonical: return of UniformMPS.to_MPS not found')
    return rep.finish(
        level='other',
        explanation='Protocol facts of the sweep framework decided per engine class: hook keys '
        '(%d engines), schedule lengths (%d schedules), explicit_plus_hc handling at %d '
        'effective-Hamiltonian construction sites, environment index pairing.' % (n1, n2, n3))


# ------------------------------------------------------------------ MPO-bond-coherence
def _mpo_bonds(f):
    """local -> (receiver, bond polynomial, how) for values read from an MPO accessor:
    get_IdL(i): bond left of site i = bond i; get_IdR(i): bond right of site i = bond i+1;
    get_W(i).get_leg('wR'): bond i+1; get_W(i).get_leg('wL'): bond i"""
    out = {}

    def bond_of(v):
        if not (isinstance(v, ast.Call) and isinstance(v.func, ast.Attribute)):
            # `.ind_len` of a leg
            if isinstance(v, ast.Attribute) and v.attr in ('ind_len', 'block_number'):
                return bond_of(v.value)
            return None
        try:
            if v.func.attr in ('get_IdL', 'get_IdR') and len(v.args) == 1:
                p = eval_poly(v.args[0], {})
                return (unparse(v.func.value), p if v.func.attr == 'get_IdL' else
                        p + Poly.const(1), unparse(v))
            if v.func.attr == 'get_leg' and len(v.args) == 1 and isinstance(
                    v.args[0], ast.Constant) and v.args[0].value in ('wL', 'wR'):
                w = v.func.value
                if isinstance(w, ast.Call) and isinstance(w.func, ast.Attribute) and \
                        w.func.attr == 'get_W' and len(w.args) == 1:
                    p = eval_poly(w.args[0], {})
                    return (unparse(w.func.value), p + Poly.const(
                        1 if v.args[0].value == 'wR' else 0), unparse(v))
        except NotPoly:
            return None
        return None
    for st in stmts_of(f):
        if not (isinstance(st, ast.Assign) and len(st.targets) == 1):
            continue
        t, v = st.targets[0], st.value
        pairs = list(zip(t.elts, v.elts)) if isinstance(t, ast.Tuple) and isinstance(
            v, ast.Tuple) and len(t.elts) == len(v.elts) else [(t, v)]
        for a, b in pairs:
            if isinstance(a, ast.Name):
                r = bond_of(b)
                if r is not None:
                    out[a.id] = r
    return out


def check_bond_coherence(prog, rep):
    """MPO-bond-coherence: the identity indices IdL / IdR and the bond dimension used together in
    one function (to size and to index the same per-bond array, as the mixers do) belong to the
    SAME bond of the MPO: get_IdL(i) is the bond left of site i, get_IdR(i) and the wR leg of W_i
    the bond right of it."""
    n = 0
    for rel in FILES + ['tenpy/networks/mpo.py']:
        m = prog.module(rel)
        for q, f in m.functions.items():
            bonds = _mpo_bonds(f)
            if len(bonds) < 2:
                continue
            # arrays sized by a bond dimension
            sized = {}
            for st in stmts_of(f):
                if isinstance(st, ast.Assign) and len(st.targets) == 1 and isinstance(
                        st.targets[0], ast.Name) and isinstance(st.value, ast.Call) and \
                        dotted(st.value.func) in ('np.full', 'np.zeros', 'np.ones', 'np.empty'):
                    for nm in names_in(st.value.args[0]) if st.value.args else []:
                        if nm in bonds:
                            sized[st.targets[0].id] = bonds[nm]
            groups = {}
            for s in body_nodes(f):
                if isinstance(s, ast.Subscript) and isinstance(s.value, ast.Name) and isinstance(
                        s.slice, ast.Name) and s.slice.id in bonds:
                    groups.setdefault(s.value.id, {})[s.slice.id] = bonds[s.slice.id]
            for arr, idx in groups.items():
                items = dict(idx)
                if arr in sized:
                    items['len(%s)' % arr] = sized[arr]
                if len(items) < 2:
                    continue
                n += 1
                ref_name, (ref_recv, ref_bond, ref_how) = sorted(items.items())[-1] \
                    if arr not in sized else ('len(%s)' % arr, sized[arr])
                rep.instance('MPO-bond-coherence', {
                    'function': q, 'array': arr,
                    'bonds': {k: '%s: bond %r' % (v[2], v[1]) for k, v in items.items()}})
                for name, (recv, bond, how) in sorted(items.items()):
                    if recv == ref_recv and not (bond - ref_bond).is_zero():
                        rep.violation('MPO-bond-coherence', m, q, 'bond:%s:%s' % (arr, name),
                                      '`%s` is indexed with `%s` = `%s` (bond %r of the MPO) but '
                                      '%s refers to bond %r (`%s`): on an MPO whose identity '
                                      'index differs from bond to bond (sorted legs, boundary '
                                      'bonds) the wrong channel is kept / suppressed' %
                                      (arr, name, how, bond, ref_name, ref_bond, ref_how),
                                      f.lineno)
    return n


# ------------------------------------------------------------------ HEFF-adjoint
def _tensor_attrs_read(f):
    """self attributes that appear as an operand of a tensordot (or have a tensor method called on
    them) in f"""
    out = set()
    for c in body_nodes(f):
        if isinstance(c, ast.Call) and (dotted(c.func) or '').endswith('tensordot'):
            for a in c.args[:2]:
                if is_self_attr(a):
                    out.add(a.attr)
    return out


def check_heff_adjoint(prog, rep):
    """HEFF-adjoint: adjoint() of an effective Hamiltonian works on a shallow copy; every tensor
    that matvec / to_matrix contract (in any configuration: plain LP W RP or the combined
    LHeff / RHeff) has to be replaced by its conjugate on the copy, otherwise the "adjoint" acts
    like the original and H + H^dagger becomes 2 H."""
    ct = prog.classtable()
    base = ct.get('EffectiveH')
    n = 0
    for ci in ct.cone(base):
        adj = ci.methods.get('adjoint')
        if adj is None:
            continue
        src = unparse(adj)
        cp = [st for st in stmts_of(adj) if isinstance(st, ast.Assign) and isinstance(
            st.value, ast.Call) and dotted(st.value.func) in ('copy.copy', 'copy')]
        if not cp:
            continue
        cname = unparse(cp[0].targets[0])
        assigned = {}
        for st in stmts_of(adj):
            if isinstance(st, ast.Assign):
                for t in st.targets:
                    if isinstance(t, ast.Attribute) and unparse(t.value) == cname:
                        assigned[t.attr] = st
        need = set()
        for name in ('matvec', 'to_matrix'):
            _, g = ct.resolve_method(ci, name)
            if g is not None:
                need |= _tensor_attrs_read(g)
        n += 1
        rep.instance('HEFF-adjoint', {'class': ci.name, 'contracted': sorted(need),
                                      'conjugated_on_copy': sorted(assigned)})
        for a in sorted(need - set(assigned)):
            rep.violation('HEFF-adjoint', ci.module, ci.name + '.adjoint', 'not-conjugated:' + a,
                          '%s.matvec / to_matrix contract `self.%s`, but adjoint() leaves it on '
                          'the shallow copy as it is: in the configuration that uses it the '
                          'adjoint acts like the operator itself' % (ci.name, a), adj.lineno)
        for a, st in sorted(assigned.items()):
            if a in need and not any(isinstance(c, ast.Call) and isinstance(c.func, ast.Attribute)
                                     and c.func.attr in ('conj', 'iconj', 'adjoint')
                                     for c in ast.walk(st.value)):
                rep.violation('HEFF-adjoint', ci.module, ci.name + '.adjoint',
                              'not-conjugate:' + a,
                              '`%s` does not conjugate the tensor' % key_text(st)[:70], st.lineno)
    return n


# ------------------------------------------------------------------ HEFF-conditional-attr
def _flag_guards(gs):
    """{(flag text, polarity)} of guards that test a flag of the object: `self.f`, `not self.f`,
    `self.f is False`, `self.f == True`, .."""
    out = set()
    for txt, pol, e in gs:
        if isinstance(e, ast.Compare) and len(e.ops) == 1 and isinstance(
                e.ops[0], (ast.Is, ast.Eq)) and isinstance(e.comparators[0], ast.Constant) and \
                isinstance(e.comparators[0].value, bool) and is_self_attr(e.left):
            out.add((unparse(e.left), pol == e.comparators[0].value))
        elif is_self_attr(e):
            out.add((txt, pol))
    return out


def check_conditional_attrs(prog, rep):
    """HEFF-conditional-attr: an attribute of an effective Hamiltonian that is only ever bound
    under a test of a flag of the object (OneSiteH.combine_Heff: LHeff if self.move_right else
    RHeff) exists only in that configuration; every read of it in the class must sit under the
    same test with the same polarity (hasattr-protected reads excepted)."""
    ct = prog.classtable()
    base = ct.get('EffectiveH')
    n = 0
    for ci in ct.cone(base):
        cond = {}
        uncond = set()
        for name, f in ci.methods.items():
            for st in stmts_of(f):
                if not isinstance(st, ast.Assign):
                    continue
                for t in st.targets:
                    if not is_self_attr(t):
                        continue
                    flags = {g for g in _flag_guards(guards_of(f, st))
                             if g[0] != 'self.combine'}
                    if flags:
                        cond.setdefault(t.attr, []).append(flags)
                    else:
                        uncond.add(t.attr)
        for attr, lst in cond.items():
            if attr in uncond:
                continue
            common = set.intersection(*lst) if lst else set()
            if not common:
                continue
            need = sorted(common)[0]
            for name, f in ci.methods.items():
                protected = {c.args[1].value for c in body_nodes(f) if isinstance(c, ast.Call) and
                             call_name(c) in ('hasattr', 'getattr') and len(c.args) >= 2 and
                             isinstance(c.args[1], ast.Constant)}
                for x in body_nodes(f):
                    if not (is_self_attr(x) and x.attr == attr and isinstance(x.ctx, ast.Load)):
                        continue
                    st = x
                    while not isinstance(st, ast.stmt):
                        st = parent(st)
                    from ..pattern import guards_at
                    have = _flag_guards(guards_at(f, x))
                    n += 1
                    ok = need in have or attr in protected
                    rep.instance('HEFF-conditional-attr', {
                        'class': ci.name, 'attribute': attr, 'bound_under': list(need),
                        'read_in': name, 'guarded': ok})
                    if not ok:
                        rep.violation('HEFF-conditional-attr', ci.module, '%s.%s' % (ci.name, name),
                                      'unguarded-read:' + attr,
                                      '`self.%s` is only bound under `%s` == %s (the other '
                                      'configuration builds its counterpart), but %s.%s reads it '
                                      'without that test: AttributeError in the other '
                                      'configuration' % (attr, need[0], need[1], ci.name, name),
                                      x.lineno)
    return n


# ------------------------------------------------------------------ HOOKS-final-canonical
def check_final_canonical(prog, rep):
    """HOOKS-final-canonical: DMRGEngine._canonicalize re-measures the norm error while sweeping
    the environments and finally calls psi.canonical_form() if the error is above norm_tol_final.
    Every (re)computation of the norm error must still reach that final test: on the CFG, no path
    from an assignment of the error to the end of the function avoids the test that guards
    canonical_form()."""
    from ..cfg import CFG
    m = prog.module(DMRG)
    f = m.functions.get('DMRGEngine._canonicalize')
    if f is None:
        raise AnalysisError('DMRGEngine._canonicalize not found')
    cfg = CFG(f)
    finals = [s for s in ast.walk(f) if isinstance(s, ast.If) and any(
        isinstance(c, ast.Call) and isinstance(c.func, ast.Attribute) and
        c.func.attr == 'canonical_form' for b in s.body for c in ast.walk(b))]
    if not finals:
        # guard-clause form: `if <error small enough>: return` followed by the unconditional call
        calls = [st for st in f.body if isinstance(st, ast.Expr) and isinstance(
            st.value, ast.Call) and isinstance(st.value.func, ast.Attribute) and
            st.value.func.attr == 'canonical_form']
        if calls:
            guards = [st for st in f.body if isinstance(st, ast.If) and st.lineno < calls[0].lineno
                      and any(isinstance(b, ast.Return) for b in st.body)]
            finals = guards[-1:]
    if len(finals) != 1:
        raise AnalysisError('_canonicalize: the guarded call of canonical_form() was not found')
    final = finals[0]
    errs = {n_ for n_ in names_in(final.test)}
    assigns = [s for s in stmts_of(f) if isinstance(s, ast.Assign) and any(
        isinstance(t, ast.Name) and t.id in errs for t in s.targets) and any(
            isinstance(c, ast.Call) and 'norm_test' in unparse(c) for c in ast.walk(s.value))]
    if not assigns:
        raise AnalysisError('_canonicalize: computation of the norm error not found')

    def is_final(n):
        return n.stmt is final
    n = 0
    for a in assigns:
        n += 1
        starts = []
        for nd in cfg.nodes_of(a):
            starts.extend(nd.succ)
        r = cfg.reachable_from(starts, blocked=is_final)
        # early returns for an error that is already small are part of the protocol: only paths
        # that fall off the end (or return) WITHOUT having passed the final test count when they
        # come from a re-measurement inside a loop / branch after the early-return guard
        escaped = cfg.exit in r and a is not assigns[0]
        rep.instance('HOOKS-final-canonical', {'assignment': key_text(a)[:60],
                                               'reaches_final_test_on_all_paths': not escaped})
        if escaped:
            rep.violation('HOOKS-final-canonical', m, 'DMRGEngine._canonicalize',
                          'final-test-skipped',
                          'after `%s` a path leads to the end of _canonicalize without the test '
                          '`%s` that guards psi.canonical_form(): a poorly converged infinite '
                          'run returns a non-canonical state' %
                          (key_text(a)[:60], unparse(final.test)), a.lineno)
    return n


# ------------------------------------------------------------------ HOOKS-mix-side / final canonical
def check_mix_sides(prog, rep):
    """HOOKS-mix-side: Mixer.mix_and_decompose_2site falls back to mix_and_decompose_1site. The
    docstring fixes the meaning: with `mix_left` the LEFT tensor U is the isometric one, i.e. the
    left site is expanded in a right move (`move_right=True`, site i0); with `mix_right` the right
    tensor VH, in a left move (`move_right=False`, site i0 + 1). Every one-site call is made under
    a branch condition that fits its `move_right` argument (decision over the two flags)."""
    m = prog.module('tenpy/algorithms/mps_common.py')
    f = m.func('Mixer.mix_and_decompose_2site')
    want = {'mix_left': True, 'mix_right': False}
    n = 0
    for c in ast.walk(f):
        if not (isinstance(c, ast.Call) and isinstance(c.func, ast.Attribute) and
                c.func.attr == 'mix_and_decompose_1site'):
            continue
        mr = kwarg(c, 'move_right')
        if not isinstance(mr, ast.Constant):
            continue
        n += 1
        gs = {t: p for t, p, _ in guards_of(f, c)}
        # the flags known to be true at this call
        true_flags = set()
        for t, p in gs.items():
            if p:
                for nm in want:
                    if t == nm or t.startswith(nm + ' and') or t.endswith('and ' + nm):
                        true_flags.add(nm)
        need = 'mix_left' if mr.value else 'mix_right'
        ok = need in true_flags
        rep.instance('HOOKS-mix-side', {'call': unparse(c)[:70], 'move_right': mr.value,
                                        'flags_true_here': sorted(true_flags), 'ok': ok})
        if not ok:
            rep.violation('HOOKS-mix-side', m, 'Mixer.mix_and_decompose_2site',
                          'side:move_right=%s' % mr.value,
                          '`%s` (move_right=%s expands the %s site) runs where only %s is known to '
                          'hold: the wrong side is expanded and a non-isometric tensor is stored as '
                          'the canonical one' % (unparse(c)[:60], mr.value,
                                                 'left' if mr.value else 'right',
                                                 sorted(true_flags)), c.lineno)
    return n


def check_to_mps_canonical(prog, rep):
    """HOOKS-final-canonical (VUMPS): UniformMPS.to_MPS builds the returned state from (AR, S);
    AL C = C AR holds only approximately, so the result is canonical only after canonical_form().
    Every path to a `return` of that state passes `<state>.canonical_form()` (must-precede on the
    CFG; the informational `check_overlap` option must not gate it)."""
    from ..cfg import CFG
    m = prog.module('tenpy/networks/uniform_mps.py')
    f = m.func('UniformMPS.to_MPS')
    cfg = CFG(f)
    n = 0
    for r in stmts_of(f):
        if not (isinstance(r, ast.Return) and isinstance(r.value, ast.Name)):
            continue
        v = r.value.id
        n += 1

        def canon(nd, v=v):
            st = nd.stmt
            return st is not None and not isinstance(st, (ast.If, ast.For, ast.While, ast.Try,
                                                          ast.With)) and any(
                isinstance(c, ast.Call) and unparse(c.func) == v + '.canonical_form'
                for c in ast.walk(st))
        ok = cfg.dominators_like_before(r, canon)
        rep.instance('HOOKS-final-canonical', {'function': 'UniformMPS.to_MPS', 'returned': v,
                                               'canonical_form_on_every_path': ok})
        if not ok:
            rep.violation('HOOKS-final-canonical', m, 'UniformMPS.to_MPS', 'uncanonical-return:' + v,
                          'a path reaches `return %s` without `%s.canonical_form()`: the iMPS '
                          'handed back by VUMPS is labelled canonical but AL C = C AR only holds '
                          'approximately (norm_test ~ 1e-3 after few sweeps)' % (v, v), r.lineno)
    return n
