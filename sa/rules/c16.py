"""C16 — Krylov solvers: the rebuilt Krylov basis runs the same recurrence as the first pass
(independence of N_cache), wrapper operators read only their own attributes and conjugate their
scalars in adjoint(), energy shift bookkeeping. Rayleigh quotients and residuals are numerical
and not decided."""
import ast

from ..core import (AnalysisError, body_nodes, call_name, dotted, is_self_attr, key_text, names_in,
                    params, parent, stmts_of, unparse)

KRY = 'tenpy/linalg/krylov_based.py'
SPARSE = 'tenpy/linalg/sparse.py'


def _tokens(stmts):
    """abstract a loop body to the sequence of vector effects on w"""
    out = []
    for st in stmts:
        t = None
        if isinstance(st, ast.Expr) and isinstance(st.value, ast.Call):
            c = st.value
            d = dotted(c.func) or ''
            a = [unparse(x) for x in c.args]
            if d == 'self.iscale_prefactor' and a and a[0] == 'w':
                t = 'scale(w, %s)' % a[1]
            elif d == 'self._to_cache' and a == ['w']:
                t = 'cache(w)'
            elif d == 'self.iadd_prefactor_other' and a and a[0] == 'w':
                t = 'w += %s * %s' % (a[1], a[2])
        elif isinstance(st, ast.Assign) and unparse(st.targets[0]) == 'w' and \
                unparse(st.value) == 'self.H.matvec(w)':
            t = 'w = H w'
        elif isinstance(st, ast.If):
            br = []
            cur = st
            while True:
                br.append('%s: [%s]' % (unparse(cur.test), '; '.join(_tokens(cur.body))))
                if len(cur.orelse) == 1 and isinstance(cur.orelse[0], ast.If):
                    cur = cur.orelse[0]
                else:
                    if cur.orelse:
                        br.append('else: [%s]' % '; '.join(_tokens(cur.orelse)))
                    break
            if any('w' in b.split(':', 1)[1] for b in br):
                t = 'branch{' + ' | '.join(br) + '}'
        elif isinstance(st, ast.For):
            inner = _tokens(st.body)
            if inner:
                t = 'for %s in %s: [%s]' % (unparse(st.target), unparse(st.iter), '; '.join(inner))
        if t:
            out.append(t)
    return out


def check_recurrence(prog, rep):
    m = prog.module(KRY)
    rep.unit(m)
    for cname in ('LanczosGroundState', ):
        b = m.func(cname + '._build_krylov')
        r = m.func(cname + '._rebuild_krylov_for_result_full')
        lb = [s for s in b.body if isinstance(s, ast.For)]
        lr = [s for s in r.body if isinstance(s, ast.For)]
        if not lb or not lr:
            raise AnalysisError('%s: Krylov loops not found' % cname)
        tb = _tokens(lb[0].body)
        tr = _tokens(lr[0].body)
        rep.instance('KRYLOV-recurrence', {'class': cname, 'build': tb, 'rebuild': tr})
        # equal up to rotation (the loops are cut at different points of the cycle)
        ok = len(tb) == len(tr) and any(tb[i:] + tb[:i] == tr for i in range(len(tb)))
        if not ok:
            rep.violation('KRYLOV-recurrence', m, cname + '._rebuild_krylov_for_result_full',
                          'recurrence-differs',
                          'when fewer than N basis vectors are cached the basis is rebuilt, but '
                          'the rebuild loop %s is not the recurrence of the first pass %s (up to '
                          'where the cycle is cut): the result depends on N_cache' % (tr, tb),
                          lr[0].lineno)
        # coefficients: rebuild reads alpha, beta where build stored them
        srcb, srcr = unparse(b), unparse(r)
        rep.instance('KRYLOV-coefficients', {'class': cname})
        ok = 'h[k, k] = alpha' in srcb and 'alpha = h[k, k]' in srcr and \
            'h[k, k + 1] = h[k + 1, k] = beta' in srcb and 'beta = h[k, k + 1]' in srcr
        if not ok:
            rep.violation('KRYLOV-coefficients', m, cname + '._rebuild_krylov_for_result_full',
                          'coefficients',
                          'the rebuild must use alpha = h[k,k] and beta = h[k,k+1] exactly where '
                          'the first pass stored them (h symmetric tridiagonal)', r.lineno)
        # starting vector and coefficient pairing in the final sum
        f = m.func('KrylovBased._calc_result_full')
        src = unparse(f)
        rep.instance('KRYLOV-coefficients', {'function': 'KrylovBased._calc_result_full'})
        ok = 'self.iadd_prefactor_other(psif, vf[N - k], self._cache[-k])' in src and \
            'range(1, min(len_cache + 1, N))' in src and \
            'self._rebuild_krylov_for_result_full(psif, N - len_cache - 1)' in src and \
            'self.iadd_prefactor_other(psif, vf[k + 1], w)' in srcr
        if not ok:
            rep.violation('KRYLOV-coefficients', m, 'KrylovBased._calc_result_full',
                          'coefficient-pairing',
                          'psi = sum_k vf[k] v_k: cached vectors cache[-k] pair with vf[N-k], the '
                          'rebuilt ones (k+1 = 1 .. N-len_cache-1) with vf[k+1]', f.lineno)
    # ground state = lowest eigenvector of the tridiagonal matrix
    f = m.func('LanczosGroundState._calc_result_krylov')
    rep.instance('KRYLOV-ritz', {})
    src = unparse(f)
    if 'np.linalg.eigh(h[:k + 1, :k + 1])' not in src or 'v_kr[:, 0]' not in src:
        rep.violation('KRYLOV-ritz', m, 'LanczosGroundState._calc_result_krylov', 'ritz-vector',
                      'the Ritz vector of the ground state is column 0 of eigh(h[:k+1,:k+1])',
                      f.lineno)
    f = m.func('LanczosGroundState._build_krylov')
    src = unparse(f)
    rep.instance('KRYLOV-ritz', {'check': 'alpha'})
    if "npc.inner(w, self._cache[-1], axes='range', do_conj=True)" not in src:
        rep.violation('KRYLOV-ritz', m, 'LanczosGroundState._build_krylov', 'alpha',
                      'alpha_k = <v_k| H v_k> (with complex conjugation of the bra)', f.lineno)


def check_wrappers(prog, rep):
    m = prog.module(SPARSE)
    rep.unit(m)
    ct = prog.classtable()
    base = ct.get('NpcLinearOperatorWrapper')
    for ci in ct.cone(base):
        if ci is base:
            continue
        init = ci.methods.get('__init__')
        own_attrs = {'orig_operator'}
        if init is not None:
            for st in stmts_of(init):
                if isinstance(st, ast.Assign):
                    for t in st.targets:
                        if is_self_attr(t):
                            own_attrs.add(t.attr)
        for mname in ('matvec', 'adjoint', 'to_matrix'):
            f = ci.methods.get(mname)
            if f is None:
                continue
            q = '%s.%s' % (ci.name, mname)
            reads = {n.attr for n in body_nodes(f) if is_self_attr(n) and isinstance(
                n.ctx, ast.Load)}
            reads -= set(ci.methods) | {'__class__'}
            rep.instance('WRAP-attrs', {'method': q, 'reads': sorted(reads),
                                        'defined': sorted(own_attrs)})
            foreign = sorted(reads - own_attrs)
            if foreign:
                msg = ('`%s` reads self.%s, which %s never defines: the access falls through '
                       '__getattr__ to the wrapped operator (AttributeError, or silently the '
                       'value of an inner wrapper)' % (q, ', self.'.join(foreign), ci.name))
                if mname == 'to_matrix':
                    rep.note('(dense debugging helper, not used by the solvers) ' + msg)
                else:
                    rep.violation('WRAP-attrs', m, q, 'foreign-attribute:' + ','.join(foreign),
                                  msg, f.lineno)
        # adjoint: every scalar attribute conjugated, operators adjointed
        f = ci.methods.get('adjoint')
        if f is not None:
            q = ci.name + '.adjoint'
            rep.instance('WRAP-adjoint', {'method': q})
            src = unparse(f)
            problems = []
            if 'self.orig_operator.adjoint()' not in src:
                problems.append('the wrapped operator is not adjointed')
            for a in sorted(own_attrs):
                if a in ('shift', 'boosts') and ('np.conj(self.%s)' % a) not in src:
                    problems.append('scalar attribute %s is not complex-conjugated' % a)
                if a == 'other_operator' and 'self.other_operator.adjoint()' not in src:
                    problems.append('other_operator is not adjointed')
            for p in problems:
                rep.violation('WRAP-adjoint', m, q, 'adjoint:' + p[:30],
                              'adjoint() of %s: %s' % (ci.name, p), f.lineno)
    # OrthogonalNpcLinearOperator.matvec: project before and after, on a copy
    f = m.func('OrthogonalNpcLinearOperator.matvec')
    rep.instance('WRAP-orthogonal', {})
    src = unparse(f)
    loops = [s for s in f.body if isinstance(s, ast.For)]
    first = f.body[0]
    ok = len(loops) == 2 and isinstance(first, ast.Assign) and unparse(first.value) == 'vec.copy()' \
        and all("-npc.inner(o, vec, axes='range', do_conj=True)" in unparse(l) for l in loops) and \
        any(isinstance(s, ast.Assign) and unparse(s.value) == 'self.orig_operator.matvec(vec)'
            for s in f.body)
    if ok:
        ok = all('self.ortho_vecs' in unparse(l.iter) for l in loops)
    if ok:
        i_mv = [i for i, s in enumerate(f.body) if isinstance(s, ast.Assign) and
                unparse(s.value) == 'self.orig_operator.matvec(vec)'][0]
        ok = f.body.index(loops[0]) < i_mv < f.body.index(loops[1])
    if not ok:
        rep.violation('WRAP-orthogonal', m, 'OrthogonalNpcLinearOperator.matvec', 'projection',
                      'P H P: the vector must be copied, projected, mapped and projected again',
                      f.lineno)
    f = m.func('ShiftNpcLinearOperator.matvec')
    rep.instance('WRAP-shift', {})
    if 'krylov_based.iadd_prefactor_other(temp, self.shift, vec)' not in unparse(f):
        rep.violation('WRAP-shift', m, 'ShiftNpcLinearOperator.matvec', 'shift',
                      '(H + shift) v = H v + shift * v', f.lineno)


def check_eshift(prog, rep):
    m = prog.module(KRY)
    f = m.func('KrylovBased.__init__')
    rep.instance('KRYLOV-eshift', {'function': 'KrylovBased.__init__'})
    src = unparse(f)
    ok = False
    for st in ast.walk(f):
        if isinstance(st, ast.If) and unparse(st.test) == 'self.E_shift is not None':
            s2 = unparse(st)
            if 'isinstance(self.H, OrthogonalNpcLinearOperator)' in s2 and \
                    'self.H.orig_operator = ShiftNpcLinearOperator(self.H.orig_operator, ' \
                    'self.E_shift)' in s2 and \
                    'self.H = ShiftNpcLinearOperator(self.H, self.E_shift)' in s2:
                ok = True
    if not ok:
        rep.violation('KRYLOV-eshift', m, 'KrylovBased.__init__', 'shift-inside-projection',
                      'the energy shift must be added to H, and INSIDE an orthogonal projection '
                      '(otherwise the projected-out vectors are shifted as well)', f.lineno)
    for qn in ('LanczosGroundState.run', 'Arnoldi.run'):
        f = m.func(qn)
        rep.instance('KRYLOV-eshift', {'function': qn})
        ok = any(isinstance(st, ast.If) and unparse(st.test) == 'self.E_shift is not None' and (
            'E0 -= self.E_shift' in unparse(st) or 'E0 = E0 - self.E_shift' in unparse(st))
            for st in ast.walk(f))
        if not ok:
            rep.violation('KRYLOV-eshift', m, qn, 'shift-not-removed',
                          'the returned energy must have the shift subtracted again (iff it was '
                          'added)', f.lineno)
    for qn in ('Arnoldi.run', 'ArnoldiEvolution.run'):
        if not m.has_func(qn):
            continue
        f = m.func(qn)
        rep.instance('KRYLOV-cache', {'function': qn})
        if not any(isinstance(s, ast.Assert) and 'self.N_cache >= self.N_max' in unparse(s)
                   for s in stmts_of(f)) and qn == 'Arnoldi.run':
            rep.violation('KRYLOV-cache', m, qn, 'needs-full-cache',
                          'Arnoldi has no rebuild pass: it must insist on N_cache >= N_max',
                          f.lineno)
    # gram_schmidt
    f = m.func('gram_schmidt')
    rep.instance('KRYLOV-gram-schmidt', {})
    src = unparse(f)
    if "npc.inner(other, vec, 'range', do_conj=True)" not in src or \
            'iadd_prefactor_other(vec, -ov, other)' not in src or \
            'iscale_prefactor(vec, 1.0 / n)' not in src or 'if n > rcond' not in src:
        rep.violation('KRYLOV-gram-schmidt', m, 'gram_schmidt', 'gram-schmidt',
                      'each vector is orthogonalised against all accepted ones, normalised and '
                      'kept only if its norm exceeds rcond', f.lineno)


def run(prog, rep, tier):
    rep.rule('KRYLOV-recurrence', 'the loop bodies of _build_krylov and '
             '_rebuild_krylov_for_result_full, abstracted to sequences of vector effects, are '
             'equal up to rotation; coefficients are read where they were stored')
    rep.rule('WRAP-*', 'wrapper operators read only attributes their own __init__ defines; '
             'adjoint() conjugates scalars and adjoints operators; P H P and H + shift')
    rep.rule('KRYLOV-eshift / cache / gram-schmidt', 'energy-shift bookkeeping, Arnoldi cache '
             'requirement, Gram-Schmidt structure')
    check_recurrence(prog, rep)
    check_wrappers(prog, rep)
    check_eshift(prog, rep)
    rep.floor('WRAP-attrs', 8)
    rep.assumptions += ['Rayleigh quotients, residuals, convergence are NOT decided']
    return rep.finish(
        level='other',
        explanation='Sibling-loop agreement of the Lanczos recurrence (independence of N_cache), '
        'attribute discipline and adjoints of the wrapper operators, energy-shift bookkeeping, '
        'decided on the current source.')
