"""C16 — Krylov solvers: the rebuilt Krylov basis runs the same recurrence as the first pass
(independence of N_cache), wrapper operators read only their own attributes and conjugate their
scalars in adjoint(), energy shift bookkeeping. Rayleigh quotients and residuals are numerical
and not decided."""
import ast

import re

from ..core import (AnalysisError, local_defs, assigned_targets, body_nodes, call_name, dotted, is_self_attr,
                    key_text, names_in, params, parent, stmts_of, unparse)
from ..linform import NotPoly, Poly, eval_poly
from ..normal import _dc, inline_temps
from ..pattern import P, find, guards_at, guards_of, pmatch

KRY = 'tenpy/linalg/krylov_based.py'
SPARSE = 'tenpy/linalg/sparse.py'


class _Canon(ast.NodeTransformer):
    """rename the work vector, the loop index and the recurrence coefficients to their roles"""

    def __init__(self, names, subs):
        self.names, self.subs = names, subs

    def visit_Name(self, node):
        return ast.copy_location(ast.Name(self.names.get(node.id, node.id), node.ctx), node)

    def visit(self, node):
        if isinstance(node, ast.expr) and not isinstance(node, ast.Name):
            t = unparse(node)
            if t in self.subs:
                return ast.copy_location(ast.Name(self.subs[t], ast.Load()), node)
        return super().visit(node)


def _roles(nf, loop):
    """(names, subs, problems): role names for the Krylov loop of the normal form `nf`"""
    names, subs, problems = {}, {}, []
    if not isinstance(loop.target, ast.Name):
        return names, subs, ['loop target is not a name']
    K = loop.target.id
    names[K] = 'k'
    W = None
    for st in loop.body:
        e = pmatch('$w = self.H.matvec($w)', st)
        if e:
            W = e['$w']
    if W is None:
        problems.append('no `w = self.H.matvec(w)` in the loop')
    else:
        names[W] = 'w'
    # the tridiagonal matrix: alias of self._h_krylov (inlined by the normal form) or a local
    HH = {'self._h_krylov'}
    for st in ast.walk(nf):
        if isinstance(st, ast.Assign) and unparse(st.value) == 'self._h_krylov' and \
                isinstance(st.targets[0], ast.Name):
            HH.add(st.targets[0].id)
    diag = {'%s[%s, %s]' % (h, K, K) for h in HH}
    off = {'%s[%s, %s + 1]' % (h, K, K) for h in HH} | {'%s[%s + 1, %s]' % (h, K, K) for h in HH}
    for t in diag:
        subs[t] = 'ALPHA'
    for t in off:
        subs[t] = 'BETA'
    stored = {'ALPHA': [], 'BETA': []}
    for st in ast.walk(loop):
        if not isinstance(st, ast.Assign):
            continue
        tg = [unparse(t) for t in st.targets]
        role = None
        if any(t in diag for t in tg):
            role = 'ALPHA'
            stored['ALPHA'] += [t for t in tg if t in diag]
        elif any(t in off for t in tg):
            role = 'BETA'
            stored['BETA'] += [t for t in tg if t in off]
        if role and isinstance(st.value, ast.Name):
            names[st.value.id] = role
        elif role:
            subs[unparse(st.value)] = role      # the stored expression itself (temp inlined)
        # names READ from the matrix / naming a cached vector
        v = unparse(st.value)
        if len(st.targets) == 1 and isinstance(st.targets[0], ast.Name):
            if re.fullmatch(r'self\._cache\[-\d+\]', v):
                names[st.targets[0].id] = v
            elif v in diag:
                names[st.targets[0].id] = 'ALPHA'
            elif v in off:
                names[st.targets[0].id] = 'BETA'
            elif any(v.startswith(h + '[') for h in HH):
                names[st.targets[0].id] = 'H[?]'
                problems.append('`%s` reads the coefficient from %s, which is neither the '
                                'diagonal [k,k] nor the off-diagonal [k,k+1]' % (key_text(st), v))
    return names, subs, problems, stored


def _tokens(stmts, canon):
    """abstract a loop body to the sequence of vector effects on the work vector w"""
    out = []
    for st in stmts:
        t = None
        if isinstance(st, ast.Expr) and isinstance(st.value, ast.Call):
            c = st.value
            d = dotted(c.func) or ''
            a = [unparse(canon.visit(_dc(x))) for x in c.args]
            if d == 'self.iscale_prefactor' and a and a[0] == 'w':
                t = 'scale(w, %s)' % a[1]
            elif d == 'self._to_cache' and a == ['w']:
                t = 'cache(w)'
            elif d == 'self.iadd_prefactor_other' and a and a[0] == 'w':
                t = 'w += %s * %s' % (a[1], a[2])
        elif isinstance(st, ast.Assign) and pmatch('$w = self.H.matvec($w)', st):
            t = 'w = H w'
        elif isinstance(st, ast.If):
            br = []
            cur = st
            while True:
                br.append('%s: [%s]' % (unparse(canon.visit(_dc(cur.test))),
                                        '; '.join(_tokens(cur.body, canon))))
                if len(cur.orelse) == 1 and isinstance(cur.orelse[0], ast.If):
                    cur = cur.orelse[0]
                else:
                    if cur.orelse:
                        br.append('else: [%s]' % '; '.join(_tokens(cur.orelse, canon)))
                    break
            if any('w' in b.split(':', 1)[1] for b in br):
                t = 'branch{' + ' | '.join(br) + '}'
        elif isinstance(st, ast.For):
            inner_names = dict(canon.names)
            if isinstance(st.target, ast.Name):
                inner_names[st.target.id] = 'c'
            inner = _tokens(st.body, _Canon(inner_names, canon.subs))
            if inner:
                t = 'for c in %s: [%s]' % (unparse(canon.visit(_dc(st.iter))), '; '.join(inner))
        if t:
            out.append(t)
    return out


def _env(func, skip=()):
    """single-assignment locals -> Poly (opaque calls become symbols named by their text)"""
    env = {}
    counts = {}
    for st in stmts_of(func):
        for t in assigned_targets(st):
            if isinstance(t, ast.Name):
                counts[t.id] = counts.get(t.id, 0) + 1
    for st in stmts_of(func):
        if isinstance(st, ast.Assign) and len(st.targets) == 1 and isinstance(
                st.targets[0], ast.Name) and counts.get(st.targets[0].id) == 1 and \
                st.targets[0].id not in skip:
            try:
                env[st.targets[0].id] = eval_poly(st.value, env, opaque_calls=True)
            except NotPoly:
                pass
    return env


def check_pairing(m, rep, r):
    """psi = sum_k vf[k] v_k with v_0 = psi0: the cached vector cache[-k] is v_{N-k}; the rebuilt
    vector after the (k+1)-th matvec is v_{k+1}; the rebuild runs for the N-len_cache-1 missing
    ones, and len_cache is measured before the cache is emptied. Decided on index polynomials."""
    q = 'KrylovBased._calc_result_full'
    f = m.func(q)
    env = _env(f)
    N = Poly.sym('N')
    LC = Poly.sym('len(self._cache)')
    rep.instance('KRYLOV-coefficients', {'function': q})

    def bad(key, msg, node):
        rep.violation('KRYLOV-coefficients', m, q, key, msg, node.lineno)

    # cached part
    found = False
    for lp in ast.walk(f):
        if not isinstance(lp, ast.For) or not isinstance(lp.target, ast.Name):
            continue
        for c in body_nodes(lp):
            if isinstance(c, ast.Call) and dotted(c.func) == 'self.iadd_prefactor_other' and \
                    len(c.args) == 3 and isinstance(c.args[2], ast.Subscript) and \
                    unparse(c.args[2].value) == 'self._cache' and \
                    isinstance(c.args[1], ast.Subscript):
                found = True
                try:
                    A = eval_poly(c.args[1].slice, env, True)
                    B = eval_poly(c.args[2].slice, env, True)
                    it = lp.iter
                    lo = eval_poly(it.args[0], env, True) if len(it.args) == 2 else Poly.const(0)
                    hi = it.args[-1]
                    his = {eval_poly(a, env, True) for a in hi.args} if isinstance(
                        hi, ast.Call) and call_name(hi) == 'min' else {eval_poly(hi, env, True)}
                except (NotPoly, AttributeError, IndexError) as e:
                    bad('coefficient-pairing', 'cannot read the index expressions of `%s` (%s)' %
                        (unparse(c)[:70], e), c)
                    continue
                k = Poly.sym(lp.target.id)
                if not (A == N + B) or not (B == -k) or not (lo == Poly.const(1)):
                    bad('coefficient-pairing',
                        '`%s` for %s in %s: cache[-k] holds v_{N-k}, so the coefficient must be '
                        'vf[N-k] with k starting at 1 (cache[-1] is the newest vector v_{N-1})' %
                        (unparse(c)[:80], lp.target.id, unparse(lp.iter)), c)
                if his != {LC + Poly.const(1), N}:
                    bad('coefficient-range',
                        'the cached part runs over k = 1 .. min(len_cache, N-1), i.e. '
                        'range(1, min(len_cache + 1, N)); found %s' % unparse(lp.iter), lp)
    if not found:
        bad('coefficient-pairing', 'the sum over the cached vectors was not found', f)
    # rebuilt part
    calls = [c for c in body_nodes(f) if isinstance(c, ast.Call) and
             dotted(c.func) == 'self._rebuild_krylov_for_result_full']
    if not calls:
        bad('rebuild-count', 'the rebuild pass is never called', f)
    resets = [st for st in stmts_of(f) if isinstance(st, ast.Assign) and
              unparse(st.targets[0]) == 'self._cache']
    for c in calls:
        try:
            M = eval_poly(c.args[1], env, True)
        except (NotPoly, IndexError) as e:
            bad('rebuild-count', 'cannot read `%s` (%s)' % (unparse(c), e), c)
            continue
        if not (M == N - LC - Poly.const(1)):
            bad('rebuild-count', '`%s`: v_1 .. v_{N-len_cache-1} are the vectors that are neither '
                'psi0 nor cached; found a count of %r' % (unparse(c)[:80], M), c)
    for st in stmts_of(f):
        if any(isinstance(x, ast.Call) and unparse(x) == 'len(self._cache)' for x in ast.walk(st)):
            if any(rs.lineno <= st.lineno for rs in resets):
                bad('len-after-reset', '`%s` measures the cache after it was emptied' %
                    key_text(st)[:70], st)
    # rebuild: coefficient of the vector after the (k+1)-th matvec
    qr = 'LanczosGroundState._rebuild_krylov_for_result_full'
    rep.instance('KRYLOV-coefficients', {'function': qr})
    loops = [s for s in r.body if isinstance(s, ast.For)]
    ok = False
    for lp in loops:
        if not isinstance(lp.target, ast.Name):
            continue
        k = Poly.sym(lp.target.id)
        it = lp.iter
        try:
            lo = eval_poly(it.args[0], {}, True) if len(it.args) == 2 else Poly.const(0)
        except (NotPoly, AttributeError, IndexError):
            continue
        seen_matvec = seen_norm = False
        for st in lp.body:
            u = unparse(st)
            if u == 'w = self.H.matvec(w)':
                seen_matvec = True
            if isinstance(st, ast.Expr) and isinstance(st.value, ast.Call) and \
                    dotted(st.value.func) == 'self.iscale_prefactor' and \
                    unparse(st.value.args[0]) == 'w':
                seen_norm = seen_matvec
            if isinstance(st, ast.Expr) and isinstance(st.value, ast.Call) and \
                    dotted(st.value.func) == 'self.iadd_prefactor_other' and \
                    unparse(st.value.args[0]) == 'psif':
                c = st.value
                try:
                    A = eval_poly(c.args[1].slice, {}, True)
                except (NotPoly, AttributeError):
                    continue
                if unparse(c.args[2]) == 'w' and seen_matvec and seen_norm and \
                        A == k - lo + Poly.const(1):
                    ok = True
    start_ok = any(isinstance(st, ast.Assign) and unparse(st) == 'w = self.psi0'
                   for st in r.body)
    if not ok or not start_ok:
        rep.violation('KRYLOV-coefficients', m, qr, 'rebuild-pairing',
                      'the rebuild starts from w = psi0 = v_0; after the matvec and the '
                      'normalisation of iteration k the vector is v_{k+1} and enters the result '
                      'with vf[k+1]', r.lineno)


CACHE_WRITERS = ('iscale_prefactor', 'iadd_prefactor_other')


def check_cache_discipline(prog, rep):
    """(1) the cached basis of one run() does not leak into the next: a class whose
    _build_krylov fills the cache either empties it at the start of _build_krylov or on every path
    through its _calc_result_full; (2) vectors read back from the cache are read-only: they are
    never the target (first argument) of iscale_prefactor / iadd_prefactor_other, nor of an
    in-place Array method."""
    from ..cfg import CFG
    m = prog.module(KRY)
    ct = prog.classtable()
    base = ct.get('KrylovBased')
    n = 0
    for ci in ct.cone(base):
        bk = ct.resolve_method(ci, '_build_krylov')
        cf = ct.resolve_method(ci, '_calc_result_full')
        if bk is None or cf is None or ci.module is not m:
            continue
        bkf, cff = bk[1], cf[1]
        if '_to_cache' not in unparse(bkf):
            continue
        n += 1

        def is_reset(nd):
            st = nd.stmt
            return isinstance(st, ast.Assign) and any(unparse(t) == 'self._cache'
                                                       for t in st.targets)

        # (a) reset before the first _to_cache in _build_krylov
        cfg = CFG(bkf)
        first = [st for st in stmts_of(bkf) if '_to_cache' in unparse(st) and
                 not isinstance(st, (ast.For, ast.While, ast.If))]
        a_ok = bool(first) and all(cfg.dominators_like_before(st, is_reset) for st in first)
        # (b) on every normal path through _calc_result_full the cache is emptied and NOT filled
        # again afterwards (the rebuild for N_cache < N pushes its vectors through _to_cache)
        fillers = {'_to_cache'}
        grown = True
        while grown:
            grown = False
            for c2 in ci.mro:
                for nm, g in c2.methods.items():
                    if nm not in fillers and any(
                            isinstance(x, ast.Call) and isinstance(x.func, ast.Attribute) and
                            unparse(x.func.value) == 'self' and x.func.attr in fillers
                            for x in ast.walk(g)):
                        fillers.add(nm)
                        grown = True
        fillers.discard('_calc_result_full')

        def fills(nd):
            st = nd.stmt
            if st is None or isinstance(st, (ast.If, ast.For, ast.While, ast.Try, ast.With)):
                return False
            return any(isinstance(x, ast.Call) and isinstance(x.func, ast.Attribute) and
                       unparse(x.func.value) == 'self' and x.func.attr in fillers
                       for x in ast.walk(st))
        cfg2 = CFG(cff)
        sin, _ = cfg2.forward(True, lambda nd, dirty: False if (nd.stmt is not None and is_reset(
            nd)) else (True if fills(nd) else dirty), lambda a, b: a or b)
        b_ok = sin.get(cfg2.exit.id, True) is False
        rep.instance('KRYLOV-cache-reset', {'class': ci.name, 'reset in _build_krylov': a_ok,
                                            'reset on every path of _calc_result_full': b_ok})
        if not (a_ok or b_ok):
            rep.violation('KRYLOV-cache-reset', m, '%s._calc_result_full' % bk[0].name
                          if False else '%s._build_krylov' % ci.name,
                          'stale-cache:%s' % ci.name,
                          '%s: the Krylov basis cached by one run() is still in self._cache when '
                          'the next run() starts (neither _build_krylov empties it first nor does '
                          'every path of _calc_result_full): the new vectors are orthogonalised '
                          'against / summed with the old basis' % ci.name, bkf.lineno)
    # (2) read-only cached vectors
    for q, f in m.functions.items():
        if '.' not in q or '_cache' not in unparse(f):
            continue
        alias = set()
        changed = True
        while changed:
            changed = False
            for st in ast.walk(f):
                src = tgt = None
                if isinstance(st, ast.Assign) and len(st.targets) == 1 and \
                        isinstance(st.targets[0], ast.Name):
                    src, tgt = st.value, st.targets[0].id
                elif isinstance(st, (ast.For, ast.comprehension)) and \
                        isinstance(st.target, ast.Name):
                    src, tgt = st.iter, st.target.id
                elif isinstance(st, (ast.For, ast.comprehension)) and \
                        isinstance(st.target, ast.Tuple) and isinstance(st.iter, ast.Call) and \
                        call_name(st.iter) == 'enumerate' and st.iter.args and \
                        isinstance(st.target.elts[-1], ast.Name):
                    src, tgt = st.iter.args[0], st.target.elts[-1].id
                if src is None:
                    continue
                b = src
                while isinstance(b, ast.Subscript):
                    b = b.value
                if (unparse(b) == 'self._cache' or (isinstance(b, ast.Name) and b.id in alias)) \
                        and tgt not in alias:
                    alias.add(tgt)
                    changed = True
        for c in body_nodes(f):
            if not isinstance(c, ast.Call):
                continue
            tgt = None
            if isinstance(c.func, ast.Attribute) and c.func.attr in CACHE_WRITERS and c.args:
                tgt = c.args[0]
            elif isinstance(c.func, ast.Attribute) and re.match(r'^i[a-z]', c.func.attr) and \
                    c.func.attr not in ('index', 'items', 'insert', 'isdigit') and \
                    not is_self_attr(c.func):
                tgt = c.func.value
            if tgt is None:
                continue
            b = tgt
            while isinstance(b, ast.Subscript):
                b = b.value
            hit = (isinstance(b, ast.Name) and b.id in alias and isinstance(tgt, (
                ast.Name, ast.Subscript))) or unparse(b) == 'self._cache'
            if isinstance(tgt, ast.Name) and tgt.id in alias:
                # `krylov_basis = self._cache` names the list, not a vector: only elements count
                hit = any(isinstance(st, ast.Assign) and isinstance(st.targets[0], ast.Name) and
                          st.targets[0].id == tgt.id and isinstance(st.value, ast.Subscript)
                          for st in ast.walk(f)) or any(
                    isinstance(st, (ast.For, ast.comprehension)) and tgt.id in names_in(st.target)
                    for st in ast.walk(f))
            rep.instance('KRYLOV-cache-readonly', {'function': q, 'call': unparse(c)[:70],
                                                   'target_is_cached': bool(hit)},
                         nontrivial=bool(hit))
            if hit:
                rep.violation('KRYLOV-cache-readonly', m, q, 'cached-vector-written:' +
                              unparse(tgt)[:30],
                              '`%s` writes in place into `%s`, a basis vector read back from '
                              'self._cache: the Krylov basis is corrupted for every later use '
                              '(further Ritz vectors, the next coefficient)' %
                              (unparse(c)[:80], unparse(tgt)), c.lineno)
    return n


def check_recurrence(prog, rep):
    m = prog.module(KRY)
    rep.unit(m)
    for cname in ('LanczosGroundState', ):
        b = m.func(cname + '._build_krylov')
        r = m.func(cname + '._rebuild_krylov_for_result_full')
        lb = [s for s in b.body if isinstance(s, ast.For)]
        lr = [s for s in r.body if isinstance(s, ast.For)]
        if not lb or not lr:
            raise AnalysisError('%s: Krylov loops not found' % cname)
        nb, nr = inline_temps(b), inline_temps(r)
        lb = [s for s in nb.body if isinstance(s, ast.For)]
        lr = [s for s in nr.body if isinstance(s, ast.For)]
        names_b, subs_b, prob_b, stored_b = _roles(nb, lb[0])
        names_r, subs_r, prob_r, stored_r = _roles(nr, lr[0])
        tb = _tokens(lb[0].body, _Canon(names_b, subs_b))
        tr = _tokens(lr[0].body, _Canon(names_r, subs_r))
        rep.instance('KRYLOV-recurrence', {'class': cname, 'build': tb, 'rebuild': tr})
        # coefficients: the first pass stores alpha on the diagonal and beta on BOTH off-diagonal
        # elements; the rebuild reads them back from there
        rep.instance('KRYLOV-coefficients', {'class': cname, 'stored': stored_b,
                                             'roles_build': names_b, 'roles_rebuild': names_r})
        offs = {t.split('[', 1)[1] for t in stored_b['BETA']}
        if prob_b or prob_r or not stored_b['ALPHA'] or len(offs) != 2 or \
                'ALPHA' not in ' '.join(tr) or 'BETA' not in ' '.join(tr):
            rep.violation('KRYLOV-coefficients', m, cname + '._rebuild_krylov_for_result_full',
                          'coefficients',
                          'the rebuild must use alpha = h[k,k] and beta = h[k,k+1] exactly where '
                          'the first pass stored them (h symmetric tridiagonal)%s' %
                          ('; ' + '; '.join(prob_b + prob_r) if prob_b or prob_r else ''), r.lineno)
        # equal up to rotation (the loops are cut at different points of the cycle)
        ok = len(tb) == len(tr) and any(tb[i:] + tb[:i] == tr for i in range(len(tb)))
        if not ok:
            rep.violation('KRYLOV-recurrence', m, cname + '._rebuild_krylov_for_result_full',
                          'recurrence-differs',
                          'when fewer than N basis vectors are cached the basis is rebuilt, but '
                          'the rebuild loop %s is not the recurrence of the first pass %s (up to '
                          'where the cycle is cut): the result depends on N_cache' % (tr, tb),
                          lr[0].lineno)
        check_pairing(m, rep, r)
    # ground state = lowest eigenvector of the tridiagonal matrix
    f = inline_temps(m.func('LanczosGroundState._calc_result_krylov'))
    rep.instance('KRYLOV-ritz', {})
    vec_ok = val_ok = False
    k = params(f)[1]
    for st in ast.walk(f):
        if not isinstance(st, ast.Assign):
            continue
        t = unparse(st.targets[0])
        if t == 'self._result_krylov' and pmatch(
                'np.linalg.eigh($$h[:%s + 1, :%s + 1])[1][:, 0]' % (k, k), st.value):
            vec_ok = True
        if pmatch('self.Es[%s, :%s + 1]' % (k, k), st.targets[0]) and pmatch(
                'np.linalg.eigh($$h[:%s + 1, :%s + 1])[0]' % (k, k), st.value):
            val_ok = True
    if not (vec_ok and val_ok):
        rep.violation('KRYLOV-ritz', m, 'LanczosGroundState._calc_result_krylov', 'ritz-vector',
                      'the Ritz vector of the ground state is column 0 of eigh(h[:k+1,:k+1]) and '
                      'the Ritz values its eigenvalues', f.lineno)
    b = m.func('LanczosGroundState._build_krylov')
    nb = inline_temps(b)
    lb = [s for s in nb.body if isinstance(s, ast.For)]
    names_b, subs_b, _, _ = _roles(nb, lb[0])
    rep.instance('KRYLOV-ritz', {'check': 'alpha'})
    K = lb[0].target.id
    ok = False
    for st in ast.walk(lb[0]):
        if not isinstance(st, ast.Assign):
            continue
        if not any(pmatch('$h[%s, %s]' % (K, K), t) or
                   pmatch('self._h_krylov[%s, %s]' % (K, K), t) for t in st.targets):
            continue
        val = st.value
        if isinstance(val, ast.Name):
            defs = [s2.value for s2 in ast.walk(lb[0]) if isinstance(s2, ast.Assign) and
                    len(s2.targets) == 1 and unparse(s2.targets[0]) == val.id]
            val = defs[0] if len(defs) == 1 else val
        cn = _Canon({k: v for k, v in names_b.items() if v not in ('ALPHA', 'BETA')}, {})
        val = cn.visit(_dc(val))
        for c in ast.walk(val):
            e = pmatch("npc.inner($$a, $$b, axes='range', do_conj=True)", c) or \
                pmatch("npc.inner($$a, $$b, 'range', do_conj=True)", c) or \
                pmatch("npc.inner($$a, $$b, 'range', True)", c)
            if e and {unparse(e['$$a']), unparse(e['$$b'])} == {'w', 'self._cache[-1]'}:
                ok = True
    if not ok:
        rep.violation('KRYLOV-ritz', m, 'LanczosGroundState._build_krylov', 'alpha',
                      'alpha_k = <v_k| H v_k> (with complex conjugation of the bra)', b.lineno)


def check_wrappers(prog, rep):
    m = prog.module(SPARSE)
    rep.unit(m)
    ct = prog.classtable()
    base = ct.get('NpcLinearOperatorWrapper')
    for ci in ct.cone(base):
        if ci is base:
            continue
        init = ci.methods.get('__init__')
        own_attrs = {'orig_operator'}
        if init is not None:
            for st in stmts_of(init):
                if isinstance(st, ast.Assign):
                    for t in st.targets:
                        if is_self_attr(t):
                            own_attrs.add(t.attr)
        for mname in ('matvec', 'adjoint', 'to_matrix'):
            f = ci.methods.get(mname)
            if f is None:
                continue
            q = '%s.%s' % (ci.name, mname)
            reads = {n.attr for n in body_nodes(f) if is_self_attr(n) and isinstance(
                n.ctx, ast.Load)}
            reads -= set(ci.methods) | {'__class__'}
            rep.instance('WRAP-attrs', {'method': q, 'reads': sorted(reads),
                                        'defined': sorted(own_attrs)})
            foreign = sorted(reads - own_attrs)
            if foreign:
                msg = ('`%s` reads self.%s, which %s never defines: the access falls through '
                       '__getattr__ to the wrapped operator (AttributeError, or silently the '
                       'value of an inner wrapper)' % (q, ', self.'.join(foreign), ci.name))
                if mname == 'to_matrix':
                    rep.note('(dense debugging helper, not used by the solvers) ' + msg)
                else:
                    rep.violation('WRAP-attrs', m, q, 'foreign-attribute:' + ','.join(foreign),
                                  msg, f.lineno)
        # adjoint: every scalar attribute conjugated, operators adjointed
        f = ci.methods.get('adjoint')
        if f is not None:
            q = ci.name + '.adjoint'
            rep.instance('WRAP-adjoint', {'method': q})
            src = unparse(f)
            problems = []
            if 'self.orig_operator.adjoint()' not in src:
                problems.append('the wrapped operator is not adjointed')
            for a in sorted(own_attrs):
                if a in ('shift', 'boosts') and ('np.conj(self.%s)' % a) not in src:
                    problems.append('scalar attribute %s is not complex-conjugated' % a)
                if a == 'other_operator' and 'self.other_operator.adjoint()' not in src:
                    problems.append('other_operator is not adjointed')
            for p in problems:
                rep.violation('WRAP-adjoint', m, q, 'adjoint:' + p[:30],
                              'adjoint() of %s: %s' % (ci.name, p), f.lineno)
    # OrthogonalNpcLinearOperator.matvec: project before and after, on a copy
    f = inline_temps(m.func('OrthogonalNpcLinearOperator.matvec'))
    rep.instance('WRAP-orthogonal', {})
    pv = params(f)[1]
    why = None
    cp = [st for st in f.body if pmatch('$v = %s.copy()' % pv, st)]
    if not cp:
        why = 'the vector must be copied first (the projections work in place)'
    else:
        v = pmatch('$v = %s.copy()' % pv, cp[0])['$v']
        projs = []
        for lp in [s2 for s2 in f.body if isinstance(s2, ast.For)]:
            it = unparse(lp.iter)
            if 'self.ortho_vecs' not in it or not isinstance(lp.target, ast.Name):
                continue
            o = lp.target.id
            good = False
            for c in body_nodes(lp):
                if isinstance(c, ast.Call) and (dotted(c.func) or '').endswith('iadd_prefactor_other'):
                    b = _bind(c, ('w', 'alpha', 'v'))
                    if unparse(b.get('w', c)) == v and unparse(b.get('v', c)) == o and (
                            pmatch("-npc.inner(%s, %s, axes='range', do_conj=True)" % (o, v),
                                   b.get('alpha')) or
                            pmatch("-npc.inner(%s, %s, 'range', do_conj=True)" % (o, v),
                                   b.get('alpha'))):
                        good = True
            if good:
                projs.append(lp)
        mv = [st for st in f.body if pmatch('%s = self.orig_operator.matvec(%s)' % (v, v), st)]
        rets = [st for st in f.body if isinstance(st, ast.Return)]
        if len(projs) != 2 or len(mv) != 1:
            why = 'found %d projections and %d applications of the operator' % (len(projs), len(mv))
        elif not (cp[0].lineno < projs[0].lineno < mv[0].lineno < projs[1].lineno):
            why = 'order must be copy, project, apply, project'
        elif not rets or unparse(rets[-1].value) != v:
            why = 'the projected vector must be returned'
    if why:
        rep.violation('WRAP-orthogonal', m, 'OrthogonalNpcLinearOperator.matvec', 'projection',
                      'P H P: the vector must be copied, projected, mapped and projected again: '
                      + why, f.lineno)
    f = inline_temps(m.func('ShiftNpcLinearOperator.matvec'), keep=('temp', 'result'))
    rep.instance('WRAP-shift', {})
    pv = params(f)[1]
    ok = False
    for c in body_nodes(f):
        if isinstance(c, ast.Call) and (dotted(c.func) or '').endswith('iadd_prefactor_other'):
            b = _bind(c, ('w', 'alpha', 'v'))
            w = b.get('w')
            if w is not None and unparse(b.get('alpha', c)) == 'self.shift' and \
                    unparse(b.get('v', c)) == pv:
                wdef = local_defs(f).get(unparse(w), [])
                if any(pmatch('self.orig_operator.matvec(%s)' % pv, d) for d in wdef) and any(
                        isinstance(st, ast.Return) and unparse(st.value) == unparse(w)
                        for st in f.body):
                    ok = True
    for st in f.body:       # or the out-of-place form
        if isinstance(st, ast.Return) and (
                pmatch('self.orig_operator.matvec(%s) + self.shift * %s' % (pv, pv), st.value)):
            ok = True
    if not ok:
        rep.violation('WRAP-shift', m, 'ShiftNpcLinearOperator.matvec', 'shift',
                      '(H + shift) v = H v + shift * v', f.lineno)


def _bind(call, names):
    out = dict(zip(names, call.args))
    for k in call.keywords:
        if k.arg is not None:
            out[k.arg] = k.value
    return out


def _test_atoms(test):
    from ..pattern import _split
    out = []
    _split(test, True, out)
    return out


def check_eshift(prog, rep):
    m = prog.module(KRY)
    f = inline_temps(m.func('KrylovBased.__init__'))
    rep.instance('KRYLOV-eshift', {'function': 'KrylovBased.__init__'})
    inside = outside = False
    # units: __init__ itself, and private helpers of the class it hands (self.H, self.E_shift) to
    # [(function, guards holding at the call, parameter -> argument text, result stored in self.H)]
    units = [(f, set(), {}, False)]
    for c in body_nodes(f):
        if isinstance(c, ast.Call) and isinstance(c.func, ast.Attribute) and unparse(
                c.func.value) in ('self', 'KrylovBased') and m.has_func(
                    'KrylovBased.' + c.func.attr) and c.func.attr != '__init__':
            h = inline_temps(m.func('KrylovBased.' + c.func.attr))
            hp = [p_ for p_ in params(h) if p_ not in ('self', 'cls')]
            amap = {p_: unparse(a) for p_, a in zip(hp, c.args)}
            st = c
            while not isinstance(st, ast.stmt):
                st = parent(st)
            to_H = isinstance(st, ast.Assign) and unparse(st.targets[0]) == 'self.H'
            units.append((h, {(t, pol) for t, pol, _ in guards_at(f, c)}, amap, to_H))
    for fu, base_g, amap, to_H in units:
        def real(txt, amap=amap):
            for k, v in amap.items():
                txt = re.sub(r'\b%s\b' % re.escape(k), v, txt)
            return txt
        for c in body_nodes(fu):
            e = pmatch('ShiftNpcLinearOperator($$op, $$sh)', c)
            if not e or real(unparse(e['$$sh'])) not in ('self.E_shift', 'E_shift'):
                continue
            st = c
            while not isinstance(st, ast.stmt):
                st = parent(st)
            g = {(real(t), pol) for t, pol, _ in guards_at(fu, c)} | base_g
            # unit resolution: a conjunction known to be false with all other operands known to be
            # true makes the remaining operand false (`elif` after `if A and B:` under `A`)
            for t_, pol_ in list(g):
                if pol_:
                    continue
                try:
                    te = ast.parse(t_, mode='eval').body
                except SyntaxError:
                    continue
                if isinstance(te, ast.BoolOp) and isinstance(te.op, ast.And):
                    ops_ = [[(real(x_[0]), x_[1]) for x_ in _test_atoms(o)] for o in te.values]
                    unknown = [o for o in ops_ if not all(x in g for x in o)]
                    if len(unknown) == 1 and len(unknown[0]) == 1:
                        a, b = unknown[0][0]
                        g.add((a, not b))
            shifted = any(t.endswith('E_shift is None') and not pol for t, pol in g)
            is_orth = {pol for t, pol in g if t.startswith('isinstance(') and
                       'OrthogonalNpcLinearOperator' in t}
            op = real(unparse(e['$$op']))
            if op.endswith('.orig_operator') and shifted and is_orth == {True}:
                # the shifted inner operator must end up INSIDE an orthogonal projection
                tgt = unparse(st.targets[0]) if isinstance(st, ast.Assign) else ''
                wrapped = any(isinstance(x, ast.Call) and
                              call_name(x) == 'OrthogonalNpcLinearOperator'
                              and c in ast.walk(x) for x in ast.walk(st))
                named = isinstance(st, ast.Assign) and isinstance(
                    st.targets[0], ast.Name) and any(
                    isinstance(x, ast.Call) and call_name(x) == 'OrthogonalNpcLinearOperator' and
                    x.args and unparse(x.args[0]) == st.targets[0].id for x in body_nodes(fu))
                if tgt.endswith('.orig_operator') or wrapped or named:
                    inside = True
            elif op in ('self.H', 'H') and shifted and is_orth == {False} and ((
                    isinstance(st, ast.Assign) and (unparse(st.targets[0]) == 'self.H' or any(
                        isinstance(a, ast.Assign) and unparse(a.targets[0]) == 'self.H' and
                        unparse(a.value) == unparse(st.targets[0]) for a in ast.walk(fu)))) or (
                        isinstance(st, ast.Return) and to_H)):
                outside = True
    if not (inside and outside):
        rep.violation('KRYLOV-eshift', m, 'KrylovBased.__init__', 'shift-inside-projection',
                      'the energy shift must be added to H, and INSIDE an orthogonal projection '
                      '(otherwise the projected-out vectors are shifted as well)', f.lineno)
    from ..cfg import CFG
    for qn in ('LanczosGroundState.run', 'Arnoldi.run'):
        f = inline_temps(m.func(qn), keep=('E0', ))
        rep.instance('KRYLOV-eshift', {'function': qn})
        removal = [st for st in ast.walk(f) if isinstance(st, ast.If) and any(
            t == 'self.E_shift is None' and not pol or t == 'self.E_shift' and pol
            for t, pol, _ in [(x[0], x[1], None) for x in _test_atoms(st.test)]) and (
                'E0 -= self.E_shift' in unparse(st) or 'E0 = E0 - self.E_shift' in unparse(st))]
        if not removal:
            rep.violation('KRYLOV-eshift', m, qn, 'shift-not-removed',
                          'the returned energy must have the shift subtracted again (iff it was '
                          'added)', f.lineno)
            continue
        # every exit that hands out the energy passes the removal (early exits included)
        cfg = CFG(f)
        for r in [st for st in ast.walk(f) if isinstance(st, ast.Return) and st.value is not None
                  and 'E0' in names_in(st.value)]:
            if not cfg.dominators_like_before(r, lambda n: n.stmt in removal):
                rep.violation('KRYLOV-eshift', m, qn, 'shift-not-removed-on-exit',
                              '`%s` returns the energy on a path that does not pass `if '
                              'self.E_shift is not None: E0 -= self.E_shift`: that exit reports '
                              'the eigenvalue of H + E_shift' % key_text(r)[:60], r.lineno)
    # ... and nowhere else: a second subtraction (in a helper feeding self.Es, say) removes the
    # shift twice.  Every arithmetic use of self.E_shift outside __init__ is one of the removals.
    for q2, f2 in sorted(m.functions.items()):
        if q2.endswith('.__init__'):
            continue
        for x in ast.walk(f2):
            hit = None
            if isinstance(x, ast.BinOp) and isinstance(x.op, (ast.Sub, ast.Add)) and (
                    unparse(x.right) == 'self.E_shift' or unparse(x.left) == 'self.E_shift'):
                hit = x
            elif isinstance(x, ast.AugAssign) and isinstance(x.op, (ast.Sub, ast.Add)) and \
                    unparse(x.value) == 'self.E_shift':
                hit = x
            if hit is None:
                continue
            rep.instance('KRYLOV-eshift', {'function': q2, 'arithmetic': unparse(hit)[:60]})
            st_ = hit
            while not isinstance(st_, ast.stmt):
                st_ = parent(st_)
            tg_ = st_.target if isinstance(st_, ast.AugAssign) else (
                st_.targets[0] if isinstance(st_, ast.Assign) else None)
            if q2 not in ('LanczosGroundState.run', 'Arnoldi.run') or not isinstance(tg_, ast.Name):
                rep.violation('KRYLOV-eshift', m, q2, 'shift-removed-twice',
                              '`%s`: the shift is removed from the returned energy in run(); '
                              'arithmetic with self.E_shift here changes the Ritz values a '
                              'second time (the returned energy is no longer the Rayleigh '
                              'quotient of the returned vector)' % unparse(hit)[:60], hit.lineno)
    for qn in ('Arnoldi.run', 'ArnoldiEvolution.run'):
        if not m.has_func(qn):
            continue
        f = m.func(qn)
        rep.instance('KRYLOV-cache', {'function': qn})
        if not any(isinstance(s, ast.Assert) and 'self.N_cache >= self.N_max' in unparse(s)
                   for s in stmts_of(f)) and qn == 'Arnoldi.run':
            rep.violation('KRYLOV-cache', m, qn, 'needs-full-cache',
                          'Arnoldi has no rebuild pass: it must insist on N_cache >= N_max',
                          f.lineno)
    # gram_schmidt
    f = inline_temps(m.func('gram_schmidt'))
    rep.instance('KRYLOV-gram-schmidt', {})
    why = _gram_schmidt_defect(f)
    if why:
        rep.violation('KRYLOV-gram-schmidt', m, 'gram_schmidt', 'gram-schmidt',
                      'each vector is orthogonalised against all accepted ones, normalised and '
                      'kept only if its norm exceeds rcond: ' + why, f.lineno)


def _gram_schmidt_defect(f):
    outer = [s for s in f.body if isinstance(s, ast.For) and isinstance(s.target, ast.Name)]
    rets = [s for s in f.body if isinstance(s, ast.Return)]
    if len(outer) != 1 or not rets or not isinstance(rets[-1].value, ast.Name):
        return 'loop over the vectors / returned list not found'
    acc = rets[-1].value.id
    v = outer[0].target.id
    if unparse(outer[0].iter) != params(f)[0]:
        return 'the outer loop must run over all given vectors'
    inner = [s for s in outer[0].body if isinstance(s, ast.For) and unparse(s.iter) == acc and
             isinstance(s.target, ast.Name)]
    if len(inner) != 1:
        return 'no loop over the vectors accepted so far (`for .. in %s`)' % acc
    o = inner[0].target.id
    proj = False
    for c in body_nodes(inner[0]):
        for pat in ("iadd_prefactor_other(%s, -npc.inner(%s, %s, 'range', do_conj=True), %s)",
                    "iadd_prefactor_other(%s, -npc.inner(%s, %s, axes='range', do_conj=True), %s)"):
            if pmatch(pat % (v, o, v, o), c):
                proj = True
    if not proj:
        return 'the projection  vec -= <other|vec> other  (bra conjugated) was not found'
    norm_t = 'npc.norm(%s) > %s' % (v, params(f)[1])
    scale = [c for c in body_nodes(outer[0]) if pmatch(
        'iscale_prefactor(%s, 1.0 / npc.norm(%s))' % (v, v), c) or pmatch(
        'iscale_prefactor(%s, 1 / npc.norm(%s))' % (v, v), c)]
    app = [c for c in body_nodes(outer[0]) if pmatch('%s.append(%s)' % (acc, v), c)]
    if len(scale) != 1 or len(app) != 1:
        return 'normalisation / append of the new vector not found'
    for c in scale + app:
        st = c
        while not isinstance(st, ast.stmt):
            st = parent(st)
        g = [(t, pol) for t, pol, _ in guards_of(f, st)]
        if g != [(norm_t, True)]:
            return '`%s` must happen exactly when the remaining norm exceeds rcond (guards: %s)' \
                % (unparse(c), g)
    if scale[0].lineno < inner[0].lineno or app[0].lineno < scale[0].lineno:
        return 'order: project, then normalise, then accept'
    return None


def run(prog, rep, tier):
    rep.rule('KRYLOV-recurrence', 'the loop bodies of _build_krylov and '
             '_rebuild_krylov_for_result_full, abstracted to sequences of vector effects, are '
             'equal up to rotation; coefficients are read where they were stored')
    rep.rule('WRAP-*', 'wrapper operators read only attributes their own __init__ defines; '
             'adjoint() conjugates scalars and adjoints operators; P H P and H + shift')
    rep.rule('KRYLOV-eshift / cache / gram-schmidt', 'energy-shift bookkeeping, Arnoldi cache '
             'requirement, Gram-Schmidt structure')
    rep.rule('KRYLOV-coefficients', 'index polynomials: cache[-k] pairs with vf[N-k] for k = 1 .. '
             'min(len_cache, N-1); the rebuild covers N-len_cache-1 vectors and pairs the vector '
             'after the (k+1)-th matvec with vf[k+1]; len_cache is read before the cache is '
             'emptied')
    rep.rule('KRYLOV-cache-reset / cache-readonly', 'the cache is emptied between runs (must-'
             'precede in _build_krylov or must-pass in _calc_result_full on the CFG); vectors '
             'read back from the cache are never the target of an in-place update')
    check_recurrence(prog, rep)
    check_wrappers(prog, rep)
    check_eshift(prog, rep)
    if check_cache_discipline(prog, rep) < 2:
        raise AnalysisError('KRYLOV-cache-reset: fewer than 2 Krylov classes fill the cache')
    rep.rule('KRYLOV-converged-normalised / KRYLOV-default-doc', 'LanczosEvolution: convergence test '
             'on the normalised result only; documented default of `normalize`')
    if check_evolution_criteria(prog, rep) < 2:
        raise AnalysisError('KRYLOV-default-doc: docstring default of normalize not found')
    rep.rule('WRAP-sector-direction', 'both branches of FlatLinearOperator.charge_sector count the '
             'direction of the leg')
    if check_sector_direction(prog, rep) < 1:
        raise AnalysisError('WRAP-sector-direction: mask of the non-compact branch not found')
    rep.rule('KRYLOV-restart', 'GMRES: reset() prepares the per-cycle state like __init__; unit '
             'first vector')
    if check_gmres(prog, rep) < 6:
        raise AnalysisError('KRYLOV-restart: fewer than 6 per-cycle attributes compared')
    rep.floor('KRYLOV-cache-readonly', 8)
    rep.floor('WRAP-attrs', 8)
    rep.assumptions += ['Rayleigh quotients, residuals, convergence are NOT decided']
    from ..flow import check_dead_computations
    rep.rule('VALUE-dead', 'no result of a call is bound to a local that is never read (reaching '
             'definitions)')
    check_dead_computations(prog, rep, ['tenpy/linalg/krylov_based.py', 'tenpy/linalg/sparse.py'])
    from ..flow import check_undefined_attrs
    rep.rule('ATTR-defined', 'every self.X read names an attribute bound somewhere in the class family')
    check_undefined_attrs(prog, rep, ['tenpy/linalg/krylov_based.py', 'tenpy/linalg/sparse.py'])
    return rep.finish(
        level='other',
        explanation='Sibling-loop agreement of the Lanczos recurrence (independence of N_cache), '
        'attribute discipline and adjoints of the wrapper operators, energy-shift bookkeeping, '
        'decided on the current source.')


# ------------------------------------------------------------------ GMRES: restart == first cycle
class _LastIndex(ast.NodeTransformer):
    """self.X[0] and self.X[-1] both name "the current element" of a per-cycle list"""

    def visit_Subscript(self, n):
        self.generic_visit(n)
        if is_self_attr(n.value) and isinstance(n.slice, ast.Constant) and n.slice.value == 0:
            n.slice = ast.UnaryOp(op=ast.USub(), operand=ast.Constant(value=1))
        return n


def _cycle_events(f):
    """attr -> canonical list of what the function does to self.<attr>"""
    import copy
    from ..normal import publish_locals
    nf = inline_temps(publish_locals(inline_temps(f)))
    ev = {}
    canon = lambda e: unparse(_LastIndex().visit(copy.deepcopy(e)))
    for st in stmts_of(nf):
        if isinstance(st, ast.Assign) and len(st.targets) == 1:
            t, v = st.targets[0], st.value
            if is_self_attr(t):
                if isinstance(v, ast.List) and len(v.elts) == 1:
                    ev.setdefault(t.attr, []).append(('current', canon(v.elts[0])))
                else:
                    ev.setdefault(t.attr, []).append(('set', canon(v)))
            elif isinstance(t, ast.Subscript) and is_self_attr(t.value):
                idx = canon(t).split('[', 1)[1]
                if idx == '-1]':
                    ev.setdefault(t.value.attr, []).append(('current', canon(v)))
                else:
                    ev.setdefault(t.value.attr, []).append(('item', idx, canon(v)))
        elif isinstance(st, ast.Expr) and isinstance(st.value, ast.Call) and isinstance(
                st.value.func, ast.Attribute):
            c = st.value
            recv = c.func.value
            args = tuple(canon(a) for a in c.args)
            if is_self_attr(recv):
                if c.func.attr == 'append' and len(c.args) == 1:
                    ev.setdefault(recv.attr, []).append(('current', args[0]))
                else:
                    ev.setdefault(recv.attr, []).append(('call', c.func.attr, args))
            elif isinstance(recv, ast.Subscript) and is_self_attr(recv.value):
                ev.setdefault(recv.value.attr, []).append(
                    ('call-current', c.func.attr, args))
    return ev, nf


def check_gmres(prog, rep):
    """KRYLOV-restart: GMRES.reset() starts a new cycle exactly like __init__ started the first
    one (same per-cycle state from the same expressions, `rs[0]` read as `rs[-1]`); in both, the
    first Krylov vector is the residual divided by ITS norm and e1 is scaled with that norm."""
    m = prog.module(KRY)
    fi, fr = m.functions.get('GMRES.__init__'), m.functions.get('GMRES.reset')
    if fi is None or fr is None:
        raise AnalysisError('GMRES.__init__ / GMRES.reset not found')
    rep.unit(m)
    (ei, ni), (er, nr) = _cycle_events(fi), _cycle_events(fr)
    n = 0
    for attr in sorted(set(ei) & set(er)):
        n += 1
        a = ei[attr]
        rep.instance('KRYLOV-restart', {'attr': attr, 'init': repr(a), 'reset': repr(er[attr])})
        if a != er[attr]:
            st = [s for s in stmts_of(fr) if attr in unparse(s)]
            rep.violation('KRYLOV-restart', m, 'GMRES.reset', 'differs:' + attr,
                          'a restarted cycle must begin like the first one: __init__ prepares '
                          '`self.%s` by %s, reset() by %s' % (attr, a, er[attr]),
                          st[0].lineno if st else fr.lineno)
    for q, nf in (('GMRES.__init__', ni), ('GMRES.reset', nr)):
        start = [e for _, e in find(P('self.qs = [$$v.copy()]'), nf)]
        norm_of = {}
        for _, env in find(P('self.$a = npc.norm($$w)'), nf):
            norm_of['self.' + env['$a']] = unparse(env['$$w'])
        scal = [env for _, env in find(P('self.qs[$$i].iscale_prefactor(1.0 / $$r)'), nf)]
        e1 = [env for _, env in find(P('self.e1.iscale_prefactor($$r)'), nf)]
        ok = len(start) == 1 and len(scal) == 1 and len(e1) == 1
        if ok:
            v = unparse(start[0]['$$v'])
            r, r1 = unparse(scal[0]['$$r']), unparse(e1[0]['$$r'])
            ok = r == 'npc.norm(%s)' % v or norm_of.get(r) == v
            ok = ok and r1 == r
        rep.instance('KRYLOV-restart', {'function': q, 'what': 'unit first vector', 'ok': ok})
        if not ok:
            rep.violation('KRYLOV-restart', m, q, 'unit-start-vector',
                          'the first Krylov vector must be the residual divided by the norm of '
                          'that residual, and e1 scaled by the same number (Arnoldi needs an '
                          'orthonormal basis; H y = |r| e1)', nf.lineno)
    return n


# ------------------------------------------------------------------ round-5: evolution criteria
def check_evolution_criteria(prog, rep):
    """KRYLOV-converged-normalised: LanczosEvolution._converged decides on the weight of the last
    Krylov vector in the NORMALISED result (`_result_krylov` is kept normalised, the norm is stored
    separately in `_result_norm`); the test therefore reads `_result_krylov` and `P_tol` only --
    scaling it with `_result_norm` stops early for decaying results (imaginary time, no E_shift).
    KRYLOV-default-doc: the default of `normalize` in LanczosEvolution.run is the expression its
    docstring states ("Defaults to ``...``"), compared as syntax trees with numeric literals
    normalised."""
    m = prog.module(KRY)
    n = 0
    f = m.func('LanczosEvolution._converged')
    reads = sorted({x.attr for x in ast.walk(f) if is_self_attr(x)})
    n += 1
    ok = set(reads) <= {'_result_krylov', 'P_tol'}
    rep.instance('KRYLOV-converged-normalised', {'reads': reads, 'ok': ok})
    if not ok:
        rep.violation('KRYLOV-converged-normalised', m, 'LanczosEvolution._converged',
                      'reads:' + ','.join(reads),
                      'the convergence test reads %s; it is defined on the normalised Krylov '
                      'result only (`_result_krylov`, `P_tol`): weighting with the norm of the '
                      'result makes it pass too early when exp(delta*H) shrinks the vector' %
                      reads, f.lineno)
    g = m.func('LanczosEvolution.run')
    doc = ast.get_docstring(g) or ''
    mm = re.search(r'normalize : .*?Defaults to ``(.+?)``', doc, re.S)
    code = None
    for st in ast.walk(g):
        if isinstance(st, ast.If) and unparse(st.test) == 'normalize is None':
            for a in st.body:
                if isinstance(a, ast.Assign) and unparse(a.targets[0]) == 'normalize':
                    code = a.value
    if mm and code is not None:
        n += 1

        def norm(e):
            e = ast.parse(e, mode='eval').body if isinstance(e, str) else e
            for x in ast.walk(e):
                if isinstance(x, ast.Constant) and isinstance(x.value, (int, float)) and \
                        not isinstance(x.value, bool):
                    x.value = float(x.value)
            return ast.dump(e)
        try:
            same = norm(mm.group(1)) == norm(code)
        except SyntaxError:
            same = True
        rep.instance('KRYLOV-default-doc', {'documented': mm.group(1), 'code': unparse(code),
                                            'agree': same})
        if not same:
            rep.violation('KRYLOV-default-doc', m, 'LanczosEvolution.run', 'default:normalize',
                          'the docstring promises `normalize` defaults to `%s`, the code uses `%s`: '
                          'for a genuinely complex exponent the result is (not) normalised against '
                          'the documentation' % (mm.group(1), unparse(code)), code.lineno)
    return n


# ------------------------------------------------------------------ WRAP-sector-direction
def check_sector_direction(prog, rep):
    """WRAP-sector-direction: the total charge of a vector on a leg counts the charges of the leg
    times its direction `qconj`. FlatLinearOperator.charge_sector selects the indices of a sector
    in two branches; the compact one asks `leg.get_qindex_of_charges(value)` (which multiplies with
    qconj -- fact read off its body); the non-compact one compares `leg.to_qflat()` (raw charges)
    and therefore has to bring in `qconj` itself. Sibling branches of one setter agree."""
    mc = prog.module('tenpy/linalg/charges.py')
    g = mc.func('LegCharge.get_qindex_of_charges')
    uses_qconj = any(is_self_attr(x, 'qconj') for x in ast.walk(g))
    m = prog.module('tenpy/linalg/sparse.py')
    f = None
    for q, fn in m.functions.items():
        if q.endswith('FlatLinearOperator.charge_sector') and any(
                isinstance(d, ast.Attribute) and d.attr == 'setter' for d in fn.decorator_list):
            f = fn
    if f is None:
        for cls in ast.walk(m.tree):
            if isinstance(cls, ast.ClassDef) and cls.name == 'FlatLinearOperator':
                for fn in cls.body:
                    if isinstance(fn, ast.FunctionDef) and fn.name == 'charge_sector' and any(
                            isinstance(d, ast.Attribute) and d.attr == 'setter'
                            for d in fn.decorator_list):
                        f = fn
    if f is None:
        raise AnalysisError('FlatLinearOperator.charge_sector setter not found')
    n = 0
    for st in ast.walk(f):
        if isinstance(st, ast.Assign) and any(is_self_attr(t, '_mask') for t in st.targets) and \
                'to_qflat' in unparse(st.value):
            n += 1
            # names the mask expression depends on (one level of local definitions)
            deps = unparse(st.value)
            for a in ast.walk(f):
                if isinstance(a, ast.Assign) and isinstance(a.targets[0], ast.Name) and \
                        a.targets[0].id in {x.id for x in ast.walk(st.value)
                                            if isinstance(x, ast.Name)}:
                    deps += ' ' + unparse(a.value)
            ok = (not uses_qconj) or 'qconj' in deps
            rep.instance('WRAP-sector-direction', {'mask': unparse(st.value)[:60],
                                                   'compact_branch_uses_qconj': uses_qconj,
                                                   'uses_qconj': ok})
            if not ok:
                rep.violation('WRAP-sector-direction', m, 'FlatLinearOperator.charge_sector',
                              'raw-charges-mask',
                              '`%s` selects the sector from the raw charges of the leg, the '
                              'compact branch through get_qindex_of_charges (charges * qconj): for '
                              'a leg with qconj = -1 the two branches select different indices'
                              % key_text(st)[:60], st.lineno)
    return n
