"""C07 — an MPS denotes the state it was built from: bookkeeping of canonical forms (R-FORM).
Decides: the recorded form of a stored tensor equals the form in which it was produced on direct
flows (isometry-side typestate), side pairing of singular values, table of forms, normalisation
pairing in canonicalisation. Anything about the represented vector / Schmidt values is numerical
and not decided."""
import ast

from ..core import (AnalysisError, bound_args, depends_on, body_nodes, call_name, dotted, is_self_attr, key_text, kwarg,
                    local_defs, names_in, params, parent, stmts_of, unparse)
from ..linform import NotPoly, Poly, eval_poly
from ..normal import inline_temps
from ..pattern import find, guards_at, guards_of, pmatch
from .c09 import check_form_flow

FILES = ['tenpy/networks/mps.py', 'tenpy/algorithms/tebd.py', 'tenpy/algorithms/tdvp.py',
         'tenpy/algorithms/dmrg.py', 'tenpy/algorithms/mps_common.py', 'tenpy/algorithms/vumps.py',
         'tenpy/algorithms/purification.py', 'tenpy/networks/mpo.py',
         'tenpy/networks/purification_mps.py', 'tenpy/algorithms/dmrg_parallel.py']
PASS_THROUGH = {'split_legs', 'replace_label', 'replace_labels', 'ireplace_label',
                'ireplace_labels', 'itranspose', 'transpose', 'copy', 'astype', 'iset_leg_labels',
                'squeeze', 'combine_legs'}
MPS = 'tenpy/networks/mps.py'


def _producer(f, expr, defs, depth=0):
    """('svd', k) / ('qr', k) / ('lq', k) if expr is (a relabelled/split version of) the k-th
    output of a factorization; ('scaled', ) if singular values were multiplied in; else None"""
    if depth > 6:
        return None
    if isinstance(expr, ast.Call) and isinstance(expr.func, ast.Attribute):
        nm = expr.func.attr
        if nm in PASS_THROUGH:
            return _producer(f, expr.func.value, defs, depth + 1)
        if nm in ('scale_axis', 'iscale_axis'):
            return ('scaled', )
        return None
    if isinstance(expr, ast.Name):
        vals = defs.get(expr.id, [])
        prods = set()
        for v in vals:
            # `U = U.split_legs()...` re-binds the name to a relabelled version of itself
            base = v
            while isinstance(base, ast.Call) and isinstance(base.func, ast.Attribute) and \
                    base.func.attr in PASS_THROUGH:
                base = base.func.value
            if isinstance(base, ast.Name) and base.id == expr.id and base is not v:
                continue
            prods.add(_producer_of_binding(f, expr.id, v, defs, depth + 1))
        if len(prods) == 1:
            return prods.pop()
        return None
    return None


def _producer_of_binding(f, name, value, defs, depth):
    """value is the RHS bound to a tuple target containing `name` or to `name` itself"""
    # find the assignment statement
    for st in stmts_of(f):
        if isinstance(st, ast.Assign) and st.value is value:
            t = st.targets[0]
            if isinstance(t, ast.Tuple) and isinstance(value, ast.Call):
                idx = None
                for k, e in enumerate(t.elts):
                    if isinstance(e, ast.Name) and e.id == name:
                        idx = k
                d = dotted(value.func) or ''
                cn = call_name(value)
                if idx is not None:
                    if cn in ('svd', 'svd_theta') and (d.startswith('npc.') or cn == 'svd_theta'):
                        return ('svd', idx)
                    if cn == 'qr' and d.startswith('npc.'):
                        return ('qr', idx)
                    if cn == 'lq' and d.startswith('npc.'):
                        return ('lq', idx)
                return None
            if isinstance(t, ast.Name):
                return _producer(f, value, defs, depth)
    return None


EXPECT = {('svd', 0): 'A', ('svd', 2): 'B', ('qr', 0): 'A', ('lq', 1): 'B'}


def check_isometry_forms(prog, rep):
    n = 0
    for rel in FILES:
        try:
            m = prog.module(rel)
        except AnalysisError:
            continue
        rep.unit(m)
        for q, f in m.functions.items():
            defs = None
            for c in body_nodes(f):
                if not (isinstance(c, ast.Call) and call_name(c) == 'set_B' and len(c.args) >= 2):
                    continue
                form = kwarg(c, 'form')
                if form is None and len(c.args) > 2:
                    form = c.args[2]
                if form is None:
                    formv = 'B'
                elif isinstance(form, ast.Constant):
                    formv = form.value
                else:
                    continue
                if defs is None:
                    defs = local_defs(f)
                prod = _producer(f, c.args[1], defs)
                if prod is None or prod == ('scaled', ) or prod not in EXPECT:
                    continue
                n += 1
                rep.instance('FORM-isometry', {'function': q, 'call': unparse(c)[:70],
                                               'producer': '%s[%d]' % prod, 'form': formv})
                want = EXPECT[prod]
                # form=None records "unknown": conversions of such a site raise instead of
                # rescaling; it never claims a wrong form
                if formv is not None and formv != want:
                    rep.violation(
                        'FORM-isometry', m, q, 'form-of-%s%d:%s' % (prod[0], prod[1], formv),
                        '`%s` stores output %d of %s — a %s isometry, i.e. canonical form %r — but '
                        'records form %r: every later form conversion multiplies the singular '
                        'values on the wrong side' %
                        (unparse(c)[:70], prod[1], prod[0], 'left' if want == 'A' else 'right',
                         want, formv), c.lineno)
    return n


def _descending(it, top):
    """`it` runs from `top` down to 0"""
    e = pmatch('range($$a, -1, -1)', it)
    if e and unparse(e['$$a']) == top:
        return True
    e = pmatch('reversed(range($$a))', it) or pmatch('range($$a)[::-1]', it)
    if e:
        try:
            return eval_poly(e['$$a'], {}) == eval_poly(ast.parse(top, mode='eval').body, {}) + \
                Poly.const(1)
        except NotPoly:
            return False
    return False


def check_canonical_form(prog, rep):
    m = prog.module(MPS)
    f = m.func('MPS.canonical_form_finite')
    rep.instance('FORM-canonical', {'function': 'MPS.canonical_form_finite'})
    problems = []
    # QR sweep left-to-right then SVD sweep right-to-left
    loops = [s for s in f.body if isinstance(s, ast.For)]
    fwd = [lp for lp in loops if pmatch('range(1, L - 1)', lp.iter) or
           pmatch('range(1, self.L - 1)', lp.iter)]
    back = [lp for lp in loops if _descending(lp.iter, 'L - 2') or
            _descending(lp.iter, 'self.L - 2')]
    if len(fwd) != 1 or len(back) != 1 or fwd[0].lineno > back[0].lineno:
        problems.append('sweep ranges: QR over range(1, L-1), SVD back over range(L-2, -1, -1)')
    for lp in back[:1]:
        if not isinstance(lp.target, ast.Name):
            problems.append('back sweep index not a name')
            continue
        i = lp.target.id
        norm = find('$S = $S / np.linalg.norm($S)', lp) + find('$S /= np.linalg.norm($S)', lp)
        setsl = find('self.set_SL(%s, $S)' % i, lp)
        if not norm or not setsl or norm[0][1]['$S'] != setsl[0][1]['$S'] or \
                norm[0][0].lineno > setsl[0][0].lineno:
            problems.append('singular values must be normalised before set_SL')
        reads = find("self.get_B(%s, 'A')" % i, lp) + find("self.get_B(%s, form='A')" % i, lp)
        if not reads or not setsl:
            problems.append('back sweep must read the A-form tensors and store S on the left bond')
        sc = find("$U.scale_axis($S, 'vR')", lp) + find("$U.iscale_axis($S, 'vR')", lp)
        td = [n for n, _ in find('npc.tensordot($$a, $$b, axes=$$ax)', lp)]
        if not sc or not any(sc[0][0] in ast.walk(t) or unparse(sc[0][0]) in unparse(t)
                             for t in td) and not any(
                isinstance(st, ast.Assign) and sc[0][0] in ast.walk(st) for st in ast.walk(lp)):
            problems.append('U*S of the previous step must be absorbed into the next tensor')
    nrm = find('self.norm = self.norm * np.linalg.norm($S)', f) + \
        find('self.norm *= np.linalg.norm($S)', f)
    if not nrm or ('renormalize', False) not in {(t, pol) for t, pol, _ in guards_of(f, nrm[0][0])}:
        problems.append('without renormalize the norm of the state must be kept in self.norm')
    for p in problems:
        rep.violation('FORM-canonical', m, 'MPS.canonical_form_finite', 'canon:' + p[:40], p,
                      f.lineno)
    # convert_form stores exactly the form it requested
    g = m.func('MPS.convert_form')
    rep.instance('FORM-canonical', {'function': 'MPS.convert_form'})
    gb = [c for c in body_nodes(g) if isinstance(c, ast.Call) and dotted(c.func) == 'self.get_B']
    sb = [c for c in body_nodes(g) if isinstance(c, ast.Call) and dotted(c.func) == 'self.set_B']
    ok = bool(gb) and bool(sb) and unparse(kwarg(gb[0], 'form')) == unparse(kwarg(sb[0], 'form'))
    if not ok:
        rep.violation('FORM-canonical', m, 'MPS.convert_form', 'convert',
                      'convert_form must store each tensor with the form it was converted to',
                      g.lineno)
    # get_theta: right neighbours contribute B with left exponent 1 - nuR(previous)
    h = inline_temps(m.func('MPS.get_theta'), keep=('theta', 'old_fR', 'new_fR'))
    rep.instance('FORM-canonical', {'function': 'MPS.get_theta'})
    gb = [c for c in body_nodes(h) if isinstance(c, ast.Call) and dotted(c.func) == 'self.get_B']
    getb = m.func('MPS.get_B')
    first = [c for c in gb if unparse(bound_args(c, getb).get('form', c)) == '(formL, None)']
    nxt = []
    for c in gb:
        fm = bound_args(c, getb).get('form')
        if isinstance(fm, ast.Tuple) and len(fm.elts) == 2:
            try:
                lhs = eval_poly(fm.elts[0], {})
            except NotPoly:
                continue
            if len(lhs.symbols()) == 1 and lhs == Poly.const(1) - Poly.sym(list(lhs.symbols())[0]):
                nxt.append((c, list(lhs.symbols())[0]))
    ok = bool(first) and bool(nxt) and any(
        pmatch("npc.tensordot($$a, $$b, axes=['vR', 'vL'])", c) for c in body_nodes(h))
    if ok:
        # the subtracted exponent is the RIGHT exponent of the previous site's stored form
        prev = nxt[0][1]
        dfs = [st for st in stmts_of(h) if isinstance(st, ast.Assign) and
               prev in {x.id for t in st.targets for x in ast.walk(t) if isinstance(x, ast.Name)}]
        ok = bool(dfs) and all(pmatch('$$x, %s = self.form[$$k]' % prev, st) or
                               pmatch('%s = self.form[$$k][1]' % prev, st) for st in dfs)
    if not ok:
        rep.violation('FORM-canonical', m, 'MPS.get_theta', 'theta',
                      'theta = B_i(formL, .) * B_{i+1}(1 - nuR_i, .) ...: each bond\'s singular '
                      'values must enter exactly once', h.lineno)
    # entanglement entropy from squared Schmidt values of the correct bond
    e = m.func('MPS.entanglement_entropy')
    rep.instance('FORM-canonical', {'function': 'MPS.entanglement_entropy'})
    why = None
    sq = find('entropy($s ** 2, $$n)', e) + find('entropy($s * $s, $$n)', e)
    if not sq:
        why = 'the entropy must be taken of the squared singular values'
    else:
        sname = sq[0][1]['$s']
        srcs = [st for st in ast.walk(e) if isinstance(st, ast.Assign) and
                unparse(st.targets[0]) == sname]
        got = {}
        for st in srcs:
            for c in ast.walk(st.value):
                a = pmatch('self.get_SL($$b)', c)
                b = pmatch('self.get_SR($$b)', c)
                if a or b:
                    g = {(t, pol) for t, pol, _ in guards_at(e, c)}
                    if a:
                        got['SL'] = (unparse(a['$$b']), g)
                    if b:
                        got['SR'] = (unparse(b['$$b']), g)
        lp = [x for x in ast.walk(e) if isinstance(x, ast.For) and isinstance(x.target, ast.Name)]
        ib = lp[0].target.id if lp else 'ib'
        if 'SL' not in got or got['SL'][0] != ib:
            why = 'bond ib: singular values LEFT of site ib (get_SL(ib))'
        elif 'SR' in got and (got['SR'][0] != '%s - 1' % ib or
                              ('%s == self.L' % ib, True) not in got['SR'][1]):
            why = 'only for ib == L the values right of site L-1 are used (get_SR(ib - 1))'
    if why:
        rep.violation('FORM-canonical', m, 'MPS.entanglement_entropy', 'entropy',
                      'entropy of bond ib uses the squared singular values left of site ib '
                      '(right of site L-1 for ib == L): ' + why, e.lineno)


def _contract_sides(call):
    """('left', 'right') roles of the two operands of npc.tensordot(a, b, axes=..) along the
    chain: contracting a.vR with b.vL puts a to the left of b; a.vL with b.vR to the right."""
    ax = kwarg(call, 'axes')
    if ax is None and len(call.args) > 2:
        ax = call.args[2]
    if ax is None or not isinstance(ax, (ast.List, ast.Tuple)) or len(ax.elts) != 2:
        return None

    def labels(e):
        if isinstance(e, ast.Constant):
            return [e.value]
        if isinstance(e, (ast.List, ast.Tuple)):
            return [x.value for x in e.elts if isinstance(x, ast.Constant)]
        return []

    la, lb = labels(ax.elts[0]), labels(ax.elts[1])
    if la == ['vR'] and lb == ['vL']:
        return ('left', 'right')
    if la == ['vL'] and lb == ['vR']:
        return ('right', 'left')
    return None


def check_segment_order(prog, rep):
    """segment_boundaries = (U_L, V_R) accumulate the gauge matrices split off at the two ends of a
    segment: [outside] U_L [segment] V_R [outside]. A function that reads the old pair and stores
    a new one composes each old matrix with the newly split-off one, which lies closer to the
    segment: new U_L = old U_L . U (old one as LEFT operand of the bond), new V_R = V . old V_R
    (old one as RIGHT operand)."""
    m = prog.module(MPS)
    n = 0
    for q, f in m.functions.items():
        roles = {}
        for st in stmts_of(f):
            e = pmatch('$l, $r = self.segment_boundaries', st)
            if e:
                roles[e['$l']] = 'left'
                roles[e['$r']] = 'right'
        writes = [st for st in stmts_of(f) if isinstance(st, ast.Assign) and any(
            unparse(t) == 'self.segment_boundaries' for t in st.targets)]
        if not roles or not writes:
            continue
        defs = local_defs(f)
        for w in writes:
            if not isinstance(w.value, ast.Tuple) or len(w.value.elts) != 2:
                continue
            for elt, side in zip(w.value.elts, ('left', 'right')):
                vals = [elt] if not isinstance(elt, ast.Name) else defs.get(elt.id, [])
                for v in vals:
                    if not (isinstance(v, ast.Call) and dotted(v.func) == 'npc.tensordot' and
                            len(v.args) >= 2):
                        continue
                    sides = _contract_sides(v)
                    if sides is None:
                        continue
                    for arg, s_ in zip(v.args[:2], sides):
                        if isinstance(arg, ast.Name) and arg.id in roles:
                            n += 1
                            rep.instance('SEGMENT-order', {'function': q, 'call': unparse(v)[:70],
                                                           'old_matrix': arg.id,
                                                           'boundary': roles[arg.id],
                                                           'operand_side': s_})
                            if roles[arg.id] != side:
                                rep.violation('SEGMENT-order', m, q, 'swapped:%s' % arg.id,
                                              'the new %s boundary is built from the old %s one '
                                              '(`%s`)' % (side, roles[arg.id], arg.id), v.lineno)
                            elif s_ != side:
                                rep.violation('SEGMENT-order', m, q, 'order:%s' % arg.id,
                                              '`%s`: the old %s boundary matrix `%s` must stay the '
                                              'outer one, i.e. the %s operand of the bond; as '
                                              'written the accumulated gauge matrices are '
                                              'multiplied in the wrong order' %
                                              (unparse(v)[:80], side, arg.id, side), v.lineno)
    return n


def check_params_reach_returns(prog, rep):
    """get_theta: every value it returns depends on the requested exponents formL / formR (the
    single-site special case included) and on the cutoff"""
    m = prog.module(MPS)
    f = m.func('MPS.get_theta')
    defs = local_defs(f)
    n = 0
    for r in [st for st in ast.walk(f) if isinstance(st, ast.Return) and st.value is not None]:
        for p_ in ('formL', 'formR'):
            n += 1
            dep = depends_on(f, r.value, [p_], defs)
            rep.instance('PARAM-dropped', {'function': 'MPS.get_theta', 'return': key_text(r)[:60],
                                           'param': p_, 'depends': dep})
            if not dep:
                rep.violation('PARAM-dropped', m, 'MPS.get_theta', 'param-dropped:' + p_,
                              '`%s` does not depend on `%s`: the documented result is '
                              's**formL G_i .. s**formR for every n, but this exit returns a '
                              'fixed form' % (key_text(r)[:70], p_), r.lineno)
    return n


def check_perm_direction(prog, rep):
    """An index list built from LegPipe.map_incoming_flat holds DESTINATION positions (where each
    incoming combination lands in the pipe). Re-ordering values given in the incoming order is a
    scatter (`new[perm] = old`) or a gather with the inverse (`old[inverse_permutation(perm)]`,
    `old[np.argsort(perm)]`); a plain gather `old[perm]` applies the permutation backwards."""
    n = 0
    for rel in (MPS, 'tenpy/networks/site.py'):
        m = prog.module(rel)
        for q, f in m.functions.items():
            dest = set()
            for st in stmts_of(f):
                if isinstance(st, ast.Assign) and len(st.targets) == 1 and isinstance(
                        st.targets[0], ast.Name) and isinstance(
                            st.value, (ast.ListComp, ast.Call)) and \
                        'map_incoming_flat' in unparse(st.value) and \
                        isinstance(st.value, ast.ListComp):
                    dest.add(st.targets[0].id)
            for nm in dest:
                for x in body_nodes(f):
                    if isinstance(x, ast.Subscript) and isinstance(x.slice, ast.Name) and \
                            x.slice.id == nm:
                        n += 1
                        gather = isinstance(x.ctx, ast.Load)
                        rep.instance('PERM-direction', {'function': q, 'use': unparse(x),
                                                        'gather': gather})
                        if gather:
                            rep.violation('PERM-direction', m, q, 'gather-with-destinations:' + nm,
                                          '`%s`: `%s` lists where each incoming index combination '
                                          'lands in the pipe; gathering with it applies the '
                                          'permutation in the wrong direction (use '
                                          'inverse_permutation(%s) or scatter)' %
                                          (unparse(x), nm, nm), x.lineno)
                    if isinstance(x, ast.Call) and call_name(x) in ('inverse_permutation',
                                                                    'argsort') and \
                            x.args and unparse(x.args[0]) == nm:
                        n += 1
                        rep.instance('PERM-direction', {'function': q, 'use': unparse(x)})
    return n


def run(prog, rep, tier):
    rep.rule('FORM-isometry', 'typestate on direct flows: a tensor that is the U/Q output of a '
             'factorization is stored as form A, a VH output as form B (through relabelling / '
             'splitting; skipped when singular values were multiplied in)')
    rep.rule('MPS-form-* (shared with C09)', 'get_B side pairing, set_svd_theta, table of forms, '
             'rebuilt tensors vs recorded forms')
    rep.rule('FORM-canonical', 'structure of canonical_form_finite, convert_form, get_theta, '
             'entanglement_entropy')
    rep.rule('SEGMENT-order', 'accumulated segment boundaries: the old left matrix is the left '
             'operand, the old right matrix the right operand of the composition')
    rep.rule('PARAM-dropped', 'every return of get_theta depends on formL and formR')
    rep.rule('PERM-direction', 'destination index lists from map_incoming_flat are scattered or '
             'inverted, never gathered with')
    n = check_isometry_forms(prog, rep)
    check_form_flow(prog, rep)
    check_canonical_form(prog, rep)
    if check_segment_order(prog, rep) < 2:
        raise AnalysisError('SEGMENT-order: contractions with segment boundaries not found')
    if check_params_reach_returns(prog, rep) < 4:
        raise AnalysisError('PARAM-dropped: returns of MPS.get_theta not found')
    if check_perm_direction(prog, rep) < 1:
        raise AnalysisError('PERM-direction: use of the map_incoming_flat index list not found')
    rep.rule('FORM-canonicalize-all-bonds', 'from_Bflat decides on canonical_form() from the bond '
             'dimensions of the constructed state')
    if check_canonicalize_guard(prog, rep) < 1:
        raise AnalysisError('FORM-canonicalize-all-bonds: guard of canonical_form in from_Bflat not found')
    rep.rule('SITE-rmw-order', 'a one-site read-modify-write through get_B/set_B is not '
             'separated by a write to another (possibly identical) site')
    check_rmw_order(prog, rep)
    rep.rule('FORM-zero-sv', 'negative powers of the singular values keep exact zeros (masked power)')
    rep.rule('FORM-scale-exponent', 'case analysis of _scale_axis_B over the values form_diff '
             'is compared with: the power of S applied equals form_diff')
    check_scale_exponent(prog, rep)
    rep.rule('DTYPE-all-tensors', 'dtypes of operators over a list of tensors are promoted over '
             'all elements')
    rep.rule('SITE-shared-inplace', 'stored tensors that may be shared between sites are not '
             'updated in place')
    if check_shared_inplace(prog, rep) < 2:
        raise AnalysisError('SITE-shared-inplace: no in-place update of a stored tensor found')
    rep.rule('LEG-side-direction', 'a leg taken from vL on one branch and vR on the other is '
             'conjugated on exactly one of them')
    if check_leg_side_direction(prog, rep) < 3:
        raise AnalysisError('LEG-side-direction: boundary leg selections in mps.py not found')
    if check_dtype_all(prog, rep) < 5:
        raise AnalysisError('DTYPE-all-tensors: dtype assignments in the network classes not found')
    rep.floor('FORM-scale-exponent', 5)
    rep.floor('FORM-isometry', 8)
    rep.assumptions += ['nothing about the represented vector, Schmidt values or entropies is '
                        'decided']
    from ..flow import check_dead_computations
    rep.rule('VALUE-dead', 'no result of a call is bound to a local that is never read (reaching '
             'definitions)')
    check_dead_computations(prog, rep, ['tenpy/networks/mps.py'])
    from ..flow import check_undefined_attrs
    rep.rule('ATTR-defined', 'every self.X read names an attribute bound somewhere in the class family')
    check_undefined_attrs(prog, rep, ['tenpy/networks/mps.py'])
    from ..labels import check_labels
    rep.rule('LABEL-known', 'typestate of leg-label sets: literal labels used on a local tensor '
             'whose complete label set is known (literal transposition, contractions) exist on it')
    check_labels(prog, rep, ['tenpy/networks/mps.py'])
    from ..flow import check_carried_flags
    rep.rule('LOOP-carried-flag', 'a flag set under a test inside a loop body and read there is '
             're-initialised per iteration')
    check_carried_flags(prog, rep, ['tenpy/networks/mps.py'])
    return rep.finish(
        level='other',
        explanation='Canonical-form bookkeeping decided on direct flows: %d set_B sites whose '
        'tensor is the output of a factorization, plus side pairing and table rules.' % n)


# ------------------------------------------------------------------ SITE-rmw-order
def _site_reads(f):
    """(position statement, site index text, getter) of every read `self.get_B(i, ..)` /
    `self._B[i]`, keyed by the local it is bound to (None when used in place)"""
    reads = []
    for st in stmts_of(f):
        if isinstance(st, (ast.If, ast.For, ast.While, ast.With, ast.Try)):
            continue
        pairs = []
        if isinstance(st, ast.Assign) and len(st.targets) == 1:
            t, v = st.targets[0], st.value
            if isinstance(t, ast.Tuple) and isinstance(v, ast.Tuple) and len(t.elts) == len(
                    v.elts):
                pairs = list(zip(t.elts, v.elts))
            else:
                pairs = [(t, v)]
        for t, v in pairs:
            if isinstance(t, ast.Name) and isinstance(v, ast.Call) and isinstance(
                    v.func, ast.Attribute) and v.func.attr == 'get_B' and \
                    unparse(v.func.value) == 'self' and v.args:
                reads.append((st, unparse(v.args[0]), t.id))
    return reads


def check_rmw_order(prog, rep):
    """SITE-rmw-order: `set_B(x, E)` where E is computed from the tensor of the same site x (a
    read-modify-write of one site). If that tensor was read into a local BEFORE another site y was
    written, and x and y can be the same site (i and i+1 of a one-site unit cell), the second
    write is based on a stale tensor and undoes the first: the read must not be separated from
    its write by a write to another site index."""
    m = prog.module(MPS)
    n = 0
    for q, f in m.functions.items():
        if not q.startswith('MPS.'):
            continue
        reads = _site_reads(f)
        if not reads:
            continue
        writes = []
        for st in stmts_of(f):
            if isinstance(st, ast.Expr) and isinstance(st.value, ast.Call) and isinstance(
                    st.value.func, ast.Attribute) and st.value.func.attr == 'set_B' and \
                    unparse(st.value.func.value) == 'self' and len(st.value.args) >= 2:
                writes.append((st, unparse(st.value.args[0]), st.value.args[1]))
        for wst, x, E in writes:
            used = {nm.id for nm in ast.walk(E) if isinstance(nm, ast.Name)}
            own = [r for r in reads if r[2] in used and r[1] == x and r[0].lineno < wst.lineno]
            other = [r for r in reads if r[2] in used and r[1] != x]
            if not own or other:
                continue          # not a one-site read-modify-write
            for rst, _, nm in own:
                between = [w for w in writes if rst.lineno < w[0].lineno < wst.lineno and
                           w[1] != x and parent(w[0]) is parent(wst)]
                n += 1
                rep.instance('SITE-rmw-order', {'function': q, 'site': x, 'read': key_text(rst)[:60],
                                                'write': key_text(wst)[:60],
                                                'writes_between': [w[1] for w in between]})
                if between:
                    rep.violation('SITE-rmw-order', m, q, 'stale-read:%s' % x,
                                  '`%s` was read into `%s` before `%s` was written, and is '
                                  'written back afterwards (`%s`): when the two indices denote '
                                  'the same tensor (unit cell of one site: i and i+1 wrap to the '
                                  'same site) the second write is based on the stale tensor and '
                                  'discards the first update' %
                                  ('self.get_B(%s)' % x, nm, 'site ' + between[0][1],
                                   key_text(wst)[:60]), wst.lineno)
    return n


# ------------------------------------------------------------------ FORM-scale-exponent
def _power_helpers(m):
    """module-level functions h(a, p) that return a**p entry-wise (possibly only on a mask of
    entries, the others staying zero): their body raises (a subscript of) the first parameter to
    the second one and nothing else is raised to a power"""
    out = set()
    for q, g in m.functions.items():
        if '.' in q:
            continue
        ps = params(g)
        if len(ps) != 2:
            continue
        pows = [b for b in ast.walk(g) if isinstance(b, ast.BinOp) and isinstance(b.op, ast.Pow)]
        if len(pows) == 1 and unparse(pows[0].right) == ps[1]:
            base = pows[0].left
            while isinstance(base, ast.Subscript):
                base = base.value
            if isinstance(base, ast.Name) and base.id == ps[0]:
                out.add(q)
    return out


def _s_exponent(e, sname, helpers=(), pname=None, pvalue=None):
    """exponent of the array `sname` in the expression e (None: not a pure power)"""
    from fractions import Fraction as F
    if isinstance(e, ast.Name) and e.id == sname:
        return F(1)
    if isinstance(e, ast.Call) and isinstance(e.func, ast.Name) and e.func.id in helpers and \
            len(e.args) + len(e.keywords) == 2 and e.args:
        x = _s_exponent(e.args[0], sname, helpers, pname, pvalue)
        k = e.args[1] if len(e.args) == 2 else e.keywords[0].value
        if isinstance(k, ast.Name) and k.id == pname and pvalue is not None:
            kv = pvalue
        elif isinstance(k, ast.Constant) and isinstance(k.value, (int, float)):
            kv = k.value
        elif isinstance(k, ast.UnaryOp) and isinstance(k.op, ast.USub) and isinstance(
                k.operand, ast.Constant):
            kv = -k.operand.value
        else:
            return None
        return None if x is None else x * F(kv).limit_denominator(64)
    if isinstance(e, ast.BinOp) and isinstance(e.op, ast.Div) and isinstance(
            e.left, ast.Constant) and e.left.value in (1, 1.0):
        x = _s_exponent(e.right, sname)
        return None if x is None else -x
    if isinstance(e, ast.BinOp) and isinstance(e.op, ast.Pow):
        x = _s_exponent(e.left, sname)
        k = e.right
        neg = False
        if isinstance(k, ast.UnaryOp) and isinstance(k.op, ast.USub):
            k, neg = k.operand, True
        if x is None or not isinstance(k, ast.Constant) or not isinstance(k.value, (int, float)):
            return None
        v = F(k.value).limit_denominator(64)
        return x * (-v if neg else v)
    return None


def check_scale_exponent(prog, rep):
    """FORM-scale-exponent: MPS._scale_axis_B(B, S, form_diff, ..) must multiply S**form_diff.
    The function touches form_diff only through comparisons with constants and as an exponent, so
    a finite case analysis over representative values (-1, -1/2, 0, 1/2, 1: all differences of
    the forms A, B, C, G, Th) decides it: on the path taken for the value v the array handed to
    scale_axis must be S**v."""
    from fractions import Fraction as F
    from ..dtable import run_paths
    m = prog.module(MPS)
    f = m.functions.get('MPS._scale_axis_B')
    if f is None:
        raise AnalysisError('MPS._scale_axis_B not found')
    pn = params(f)
    bname, sname, dname = pn[1], pn[2], pn[3]
    body = [s for s in f.body if not (isinstance(s, ast.Expr) and isinstance(s.value,
                                                                             ast.Constant))]
    n = 0
    for v in (-1.0, -0.5, 0, 0.5, 1.0):
        paths = run_paths(body, {'isinstance(%s, npc.Array)' % sname: False}, env={dname: v})
        rets = [p for p in paths if p.outcome == 'return']
        if len(rets) != 1 or len(paths) != 1:
            raise AnalysisError('_scale_axis_B: %d paths for form_diff=%s' % (len(paths), v))
        p = rets[0]
        val = p.value
        if isinstance(val, ast.Name) and val.id == bname:
            got = F(0)
        elif isinstance(val, ast.Call) and isinstance(val.func, ast.Attribute) and \
                val.func.attr == 'scale_axis' and val.args:
            arg = val.args[0]
            if isinstance(arg, ast.Name) and isinstance(p.env.get(arg.id), ast.AST):
                arg = p.env[arg.id]
            elif isinstance(arg, ast.Name) and arg.id != sname:
                arg = None
            got = _s_exponent(arg, sname, _power_helpers(m), dname, v) if arg is not None else None
        else:
            got = None
        n += 1
        rep.instance('FORM-scale-exponent', {'form_diff': v, 'returns': unparse(val),
                                             'exponent_of_S': str(got)})
        if v < 0 and got is not None:
            # FORM-zero-sv: enlarge_chi adds singular values that are exactly zero; a negative
            # power must leave them zero (masked power), else the conversion yields inf * 0 = nan
            helpers = _power_helpers(m)
            masked = False
            if isinstance(arg, ast.Call) and isinstance(arg.func, ast.Name) and \
                    arg.func.id in helpers:
                g = m.functions[arg.func.id]
                pw = [b for b in ast.walk(g) if isinstance(b, ast.BinOp) and
                      isinstance(b.op, ast.Pow)][0]
                masked = isinstance(pw.left, ast.Subscript) and any(
                    isinstance(c, ast.Compare) and isinstance(c.ops[0], (ast.NotEq, ast.Gt))
                    for c in ast.walk(g))
            rep.instance('FORM-zero-sv', {'form_diff': v, 'masked_power': masked})
            if not masked:
                rep.violation('FORM-zero-sv', m, 'MPS._scale_axis_B', 'unmasked-negative-power:%s' % v,
                              'for form_diff = %s the singular values are raised to a negative '
                              'power without masking exact zeros (`%s`): after enlarge_chi (which '
                              'adds zeros \'representing the same state\') B -> A conversions give '
                              'nan, e.g. psi.overlap(psi)' % (v, unparse(arg)[:50]), f.lineno)
        if got is None:
            raise AnalysisError('_scale_axis_B: cannot read the power of S for form_diff=%s '
                                '(`%s`)' % (v, unparse(val)))
        if got != F(v).limit_denominator(64):
            rep.violation('FORM-scale-exponent', m, 'MPS._scale_axis_B', 'exponent:%s' % v,
                          'for form_diff = %s the tensor is scaled with S**%s instead of S**%s: '
                          'conversions to / from the symmetric form C (exponents 1/2) change '
                          'the state' % (v, got, v), f.lineno)
    return n


# ------------------------------------------------------------------ DTYPE-all-tensors
def check_dtype_all(prog, rep):
    """DTYPE-all-tensors: the tensors of an MPS may have different dtypes (one complex tensor
    after a complex local operator). A dtype that parametrises an operator over a LIST of tensors
    (transfer matrix, environment) must be promoted over all elements: an expression
    `L[const].dtype` on a local list of tensors feeding `dtype` is a first-element-only promotion."""
    n = 0
    for rel in ('tenpy/networks/mps.py', 'tenpy/networks/mpo.py', 'tenpy/networks/uniform_mps.py',
                'tenpy/networks/purification_mps.py'):
        m = prog.module(rel)
        for q, f in m.functions.items():
            lists = set()
            for st in stmts_of(f):
                if isinstance(st, ast.Assign):
                    v = st.value
                    if isinstance(v, (ast.ListComp, ast.List)) or (
                            isinstance(v, ast.Call) and call_name(v) in ('list', 'reversed')):
                        for t in st.targets:
                            for x in ast.walk(t):
                                if isinstance(x, ast.Name) and isinstance(x.ctx, ast.Store):
                                    lists.add(x.id)
            for st in stmts_of(f):
                if not isinstance(st, ast.Assign):
                    continue
                tgt = unparse(st.targets[0])
                if 'dtype' not in tgt:
                    continue
                n += 1
                firsts = [x for x in ast.walk(st.value) if isinstance(x, ast.Attribute) and
                          x.attr == 'dtype' and isinstance(x.value, ast.Subscript) and
                          isinstance(x.value.value, ast.Name) and x.value.value.id in lists and
                          isinstance(x.value.slice, (ast.Constant, ast.UnaryOp))]
                if firsts:
                    rep.violation('DTYPE-all-tensors', m, q, 'first-only:' + tgt,
                                  '`%s` takes the dtype from `%s` only, although `%s` is a list '
                                  'of tensors that may have different dtypes: with a complex '
                                  'tensor elsewhere in the list the operator is treated as real '
                                  'and imaginary parts are dropped' %
                                  (key_text(st)[:70], unparse(firsts[0]), firsts[0].value.value.id),
                                  st.lineno)
    rep.instance('DTYPE-all-tensors', {'dtype_assignments_checked': n})
    return n


# ------------------------------------------------------------------ SITE-shared-inplace
def check_shared_inplace(prog, rep):
    """SITE-shared-inplace: enlarge_mps_unit_cell fills self._B with get_B(j, form=None) for j
    beyond L, i.e. with the SAME tensor objects again. From then on an in-place update of
    `self._B[i]` (augmented assignment, i-method) changes several sites at once, while the
    surrounding bookkeeping (norm, forms) accounts for one: stored tensors of a possibly infinite
    MPS are re-bound, not updated in place."""
    m = prog.module(MPS)
    enl = m.functions.get('MPS.enlarge_mps_unit_cell')
    if enl is None:
        raise AnalysisError('MPS.enlarge_mps_unit_cell not found')
    shares = False
    for st in stmts_of(enl):
        if isinstance(st, ast.Assign) and any(is_self_attr(t, '_B') for t in st.targets) and \
                isinstance(st.value, ast.ListComp):
            e = st.value.elt
            if isinstance(e, ast.Call) and isinstance(e.func, ast.Attribute) and \
                    e.func.attr == 'get_B' and not (kwarg(e, 'copy') is not None and
                                                    unparse(kwarg(e, 'copy')) == 'True'):
                shares = True
    rep.instance('SITE-shared-inplace', {'function': 'MPS.enlarge_mps_unit_cell',
                                         'stores_shared_tensors': shares})
    n = 1
    if not shares:
        return n
    for q, f in m.functions.items():
        if not q.startswith('MPS.'):
            continue
        for st in stmts_of(f):
            hit = None
            if isinstance(st, ast.AugAssign) and isinstance(st.target, ast.Subscript) and \
                    is_self_attr(st.target.value, '_B'):
                hit = st
            elif isinstance(st, ast.Expr) and isinstance(st.value, ast.Call) and isinstance(
                    st.value.func, ast.Attribute) and isinstance(
                        st.value.func.value, ast.Subscript) and is_self_attr(
                            st.value.func.value.value, '_B') and \
                    st.value.func.attr.startswith('i') and st.value.func.attr[1:2] != 's':
                hit = st
            if hit is None:
                continue
            gs = guards_of(f, hit)
            finite = any(pol and ("self.bc == 'finite'" in t or t == 'self.finite')
                         for t, pol, _ in gs) or any(
                isinstance(s2, ast.Assert) and unparse(s2.test) in ('self.finite',
                                                                    "self.bc == 'finite'")
                and s2.lineno < hit.lineno for s2 in stmts_of(f))
            n += 1
            rep.instance('SITE-shared-inplace', {'function': q, 'update': key_text(hit)[:60],
                                                 'finite_only': finite})
            if not finite:
                rep.violation('SITE-shared-inplace', m, q, 'inplace:' + key_text(hit)[:40],
                              '`%s` updates a stored tensor in place; after '
                              'enlarge_mps_unit_cell the same object is stored at sites i and '
                              'i+L, so two sites change while norm / form bookkeeping accounts '
                              'for one' % key_text(hit)[:60], hit.lineno)
    return n


# ------------------------------------------------------------------ LEG-side-direction
def _leg_reads(node):
    """[(side, conjugated?)] of the plain virtual-leg reads `X.get_leg('vL'|'vR')[.conj()]*` in
    `node`, in source order"""
    out = []
    txt_nodes = [c for c in ast.walk(node) if isinstance(c, ast.Call) and isinstance(
        c.func, ast.Attribute) and c.func.attr == 'get_leg' and len(c.args) == 1 and
        isinstance(c.args[0], ast.Constant) and c.args[0].value in ('vL', 'vR')]
    for c in txt_nodes:
        conj = 0
        cur = c
        while True:
            par = getattr(cur, '_parent', None)
            if isinstance(par, ast.Attribute) and par.attr == 'conj' and isinstance(
                    getattr(par, '_parent', None), ast.Call):
                conj += 1
                cur = par._parent
            else:
                break
        out.append((c.args[0].value, conj % 2 == 1, getattr(c, 'lineno', 0),
                    getattr(c, 'col_offset', 0)))
    out.sort(key=lambda x: (x[2], x[3]))
    return [(a, b) for a, b, _, _ in out]


def _leg_alternatives(f):
    """groups of alternative readings of one virtual leg:
    (a) a local bound in alternative branches to get_leg('vL') / get_leg('vR');
    (b) a statement whose conditional expression selects the tensor and the label together
        (`(B[i], 'vL') if c else (B[i-1], 'vR')`): the two arms, resolved and compared position by
        position."""
    from ..core import set_parents
    from ..normal import _dc, _fold_literal_index
    groups = []
    nf = inline_temps(f)
    byname = {}
    for st in stmts_of(nf):
        if isinstance(st, ast.Assign) and len(st.targets) == 1 and isinstance(
                st.targets[0], ast.Name) and not any(isinstance(x, ast.IfExp)
                                                      for x in ast.walk(st.value)):
            reads = _leg_reads(st.value)
            head = unparse(st.value)
            if len(reads) == 1 and head.split('.get_leg(')[-1].replace(
                    "'vL')", '').replace("'vR')", '').replace('.conj()', '') == '':
                byname.setdefault(st.targets[0].id, []).append(reads[0] + (st, ))
    for name, alts in byname.items():
        if len({s_ for s_, _, _ in alts}) > 1:
            groups.append((name, alts))

    class Pick(ast.NodeTransformer):
        def __init__(self, atoms):
            self.atoms = atoms

        def visit_IfExp(self, n):
            self.generic_visit(n)
            return n.body if self.atoms.get(unparse(n.test), True) else n.orelse
    for st in stmts_of(nf):
        if isinstance(st, (ast.If, ast.For, ast.While, ast.With, ast.Try)):
            continue
        tests = sorted({unparse(x.test) for x in ast.walk(st) if isinstance(x, ast.IfExp)})
        if not tests or 'get_leg' not in unparse(st):
            continue
        versions = []
        for t in tests[:2]:
            pair = []
            for val in (True, False):
                v = Pick({t: val}).visit(_dc(st))
                holder = ast.Module(body=[v], type_ignores=[])
                ast.fix_missing_locations(holder)
                _fold_literal_index(holder)
                set_parents(holder)
                pair.append(_leg_reads(holder))
            versions.append(pair)
        for a, b in versions:
            if len(a) == len(b):
                for (sa_, ca), (sb, cb) in zip(a, b):
                    if sa_ != sb:
                        groups.append(('<conditional expression>', [(sa_, ca, st), (sb, cb, st)]))
                        break
    return groups


def check_leg_side_direction(prog, rep):
    """LEG-side-direction: the virtual leg of bond i can be read as 'vL' of B[i] or as 'vR' of
    B[i-1]; the two have opposite directions (get_charge() includes the direction). A local that
    takes the leg from 'vL' on one branch and from 'vR' on the other (boundary of a segment /
    finite MPS) must conjugate exactly one of them, otherwise everything computed from its
    charges changes sign at the boundary."""
    n = 0
    for rel in (MPS, 'tenpy/networks/mpo.py', 'tenpy/networks/purification_mps.py'):
        m = prog.module(rel)
        for q, f in m.functions.items():
            src_ = unparse(f)
            if 'get_leg' not in src_ or "'vL'" not in src_ or "'vR'" not in src_:
                continue
            for name, alts in _leg_alternatives(f):
                n += 1
                dirs = {(side == 'vL') != conj for side, conj, _ in alts}   # True: vL-like
                rep.instance('LEG-side-direction', {'function': q, 'local': name,
                                                    'alternatives': [(s_, c_) for s_, c_, _ in alts],
                                                    'consistent': len(dirs) == 1})
                if len(dirs) != 1:
                    st = alts[-1][2]
                    rep.violation('LEG-side-direction', m, q, 'mixed-direction:' + name,
                                  '`%s` is the leg %s on one branch and %s on the other: the two '
                                  'point in opposite directions, so charges read from it '
                                  '(get_charge includes the direction) flip sign between the '
                                  'branches' % (name, *['%s%s' % (s_, '.conj()' if c_ else '')
                                                        for s_, c_, _ in alts[:2]]), st.lineno)
    return n


# ------------------------------------------------------------------ FORM-canonicalize-all-bonds
def check_canonicalize_guard(prog, rep):
    """FORM-canonicalize-all-bonds: MPS.from_Bflat labels the raw tensors with the requested form
    and placeholder Schmidt values; that is only right when EVERY bond of the constructed state is
    trivial -- including the bond that closes an infinite unit cell and the outer bonds of a
    segment, which no pair of neighbouring input tensors shows. The test that decides whether
    canonical_form() can be skipped therefore ranges over the bond dimensions of the constructed
    object (`.chi`), not over the shapes of the inputs."""
    m = prog.module('tenpy/networks/mps.py')
    n = 0
    for q in ('MPS.from_Bflat', ):
        f = m.func(q)
        res = None
        for st in ast.walk(f):
            if isinstance(st, ast.Assign) and isinstance(st.targets[0], ast.Name) and isinstance(
                    st.value, ast.Call) and unparse(st.value.func) == 'cls':
                res = st.targets[0].id
        if res is None:
            raise AnalysisError('%s: construction through cls(..) not found' % q)
        for st in ast.walk(f):
            if isinstance(st, ast.If) and any(
                    isinstance(c, ast.Call) and unparse(c.func) == res + '.canonical_form'
                    for c in ast.walk(st)):
                n += 1
                ok = any(isinstance(x, ast.Attribute) and x.attr == 'chi' and
                         unparse(x.value) == res for x in ast.walk(st.test))
                # `L > 1` excludes the one-site unit cell of an INFINITE state, which has a bond
                single = any(isinstance(x, ast.Compare) and unparse(x.left) == res + '.L'
                             for x in ast.walk(st.test))
                covers_inf = 'infinite' in unparse(st.test) or '.finite' in unparse(st.test)
                if ok and single and not covers_inf:
                    rep.violation('FORM-canonicalize-all-bonds', m, q, 'skip-test:single-site',
                                  'canonical_form() is skipped for `%s.L == 1` regardless of the '
                                  'boundary conditions: an infinite MPS with a one-site unit cell '
                                  'and chi > 1 keeps the placeholder Schmidt values' % res,
                                  st.lineno)
                rep.instance('FORM-canonicalize-all-bonds', {'function': q,
                                                             'test': unparse(st.test)[:70], 'ok': ok})
                if not ok:
                    rep.violation('FORM-canonicalize-all-bonds', m, q, 'skip-test:' + res,
                                  'canonical_form() is skipped under `%s`, which does not look at '
                                  'the bond dimensions `%s.chi` of the constructed state: the bond '
                                  'closing an infinite unit cell (outer bonds of a segment) is not '
                                  'covered, the state is labelled canonical with placeholder '
                                  'Schmidt values' % (unparse(st.test)[:60], res), st.lineno)
    return n
