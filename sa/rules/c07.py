"""C07 — an MPS denotes the state it was built from: bookkeeping of canonical forms (R-FORM).
Decides: the recorded form of a stored tensor equals the form in which it was produced on direct
flows (isometry-side typestate), side pairing of singular values, table of forms, normalisation
pairing in canonicalisation. Anything about the represented vector / Schmidt values is numerical
and not decided."""
import ast

from ..core import (AnalysisError, body_nodes, call_name, dotted, is_self_attr, key_text, kwarg,
                    local_defs, names_in, params, parent, stmts_of, unparse)
from .c09 import check_form_flow

FILES = ['tenpy/networks/mps.py', 'tenpy/algorithms/tebd.py', 'tenpy/algorithms/tdvp.py',
         'tenpy/algorithms/dmrg.py', 'tenpy/algorithms/mps_common.py', 'tenpy/algorithms/vumps.py',
         'tenpy/algorithms/purification.py', 'tenpy/networks/mpo.py',
         'tenpy/networks/purification_mps.py', 'tenpy/algorithms/dmrg_parallel.py']
PASS_THROUGH = {'split_legs', 'replace_label', 'replace_labels', 'ireplace_label',
                'ireplace_labels', 'itranspose', 'transpose', 'copy', 'astype', 'iset_leg_labels',
                'squeeze', 'combine_legs'}
MPS = 'tenpy/networks/mps.py'


def _producer(f, expr, defs, depth=0):
    """('svd', k) / ('qr', k) / ('lq', k) if expr is (a relabelled/split version of) the k-th
    output of a factorization; ('scaled', ) if singular values were multiplied in; else None"""
    if depth > 6:
        return None
    if isinstance(expr, ast.Call) and isinstance(expr.func, ast.Attribute):
        nm = expr.func.attr
        if nm in PASS_THROUGH:
            return _producer(f, expr.func.value, defs, depth + 1)
        if nm in ('scale_axis', 'iscale_axis'):
            return ('scaled', )
        return None
    if isinstance(expr, ast.Name):
        vals = defs.get(expr.id, [])
        prods = set()
        for v in vals:
            # `U = U.split_legs()...` re-binds the name to a relabelled version of itself
            base = v
            while isinstance(base, ast.Call) and isinstance(base.func, ast.Attribute) and \
                    base.func.attr in PASS_THROUGH:
                base = base.func.value
            if isinstance(base, ast.Name) and base.id == expr.id and base is not v:
                continue
            prods.add(_producer_of_binding(f, expr.id, v, defs, depth + 1))
        if len(prods) == 1:
            return prods.pop()
        return None
    return None


def _producer_of_binding(f, name, value, defs, depth):
    """value is the RHS bound to a tuple target containing `name` or to `name` itself"""
    # find the assignment statement
    for st in stmts_of(f):
        if isinstance(st, ast.Assign) and st.value is value:
            t = st.targets[0]
            if isinstance(t, ast.Tuple) and isinstance(value, ast.Call):
                idx = None
                for k, e in enumerate(t.elts):
                    if isinstance(e, ast.Name) and e.id == name:
                        idx = k
                d = dotted(value.func) or ''
                cn = call_name(value)
                if idx is not None:
                    if cn in ('svd', 'svd_theta') and (d.startswith('npc.') or cn == 'svd_theta'):
                        return ('svd', idx)
                    if cn == 'qr' and d.startswith('npc.'):
                        return ('qr', idx)
                    if cn == 'lq' and d.startswith('npc.'):
                        return ('lq', idx)
                return None
            if isinstance(t, ast.Name):
                return _producer(f, value, defs, depth)
    return None


EXPECT = {('svd', 0): 'A', ('svd', 2): 'B', ('qr', 0): 'A', ('lq', 1): 'B'}


def check_isometry_forms(prog, rep):
    n = 0
    for rel in FILES:
        try:
            m = prog.module(rel)
        except AnalysisError:
            continue
        rep.unit(m)
        for q, f in m.functions.items():
            defs = None
            for c in body_nodes(f):
                if not (isinstance(c, ast.Call) and call_name(c) == 'set_B' and len(c.args) >= 2):
                    continue
                form = kwarg(c, 'form')
                if form is None and len(c.args) > 2:
                    form = c.args[2]
                if form is None:
                    formv = 'B'
                elif isinstance(form, ast.Constant):
                    formv = form.value
                else:
                    continue
                if defs is None:
                    defs = local_defs(f)
                prod = _producer(f, c.args[1], defs)
                if prod is None or prod == ('scaled', ) or prod not in EXPECT:
                    continue
                n += 1
                rep.instance('FORM-isometry', {'function': q, 'call': unparse(c)[:70],
                                               'producer': '%s[%d]' % prod, 'form': formv})
                want = EXPECT[prod]
                if formv != want:
                    rep.violation(
                        'FORM-isometry', m, q, 'form-of-%s%d:%s' % (prod[0], prod[1], formv),
                        '`%s` stores output %d of %s — a %s isometry, i.e. canonical form %r — but '
                        'records form %r: every later form conversion multiplies the singular '
                        'values on the wrong side' %
                        (unparse(c)[:70], prod[1], prod[0], 'left' if want == 'A' else 'right',
                         want, formv), c.lineno)
    return n


def check_canonical_form(prog, rep):
    m = prog.module(MPS)
    f = m.func('MPS.canonical_form_finite')
    src = unparse(f)
    rep.instance('FORM-canonical', {'function': 'MPS.canonical_form_finite'})
    problems = []
    # QR sweep left-to-right then SVD sweep right-to-left
    loops = [s for s in f.body if isinstance(s, ast.For)]
    if len(loops) < 2 or unparse(loops[0].iter) != 'range(1, L - 1)' or \
            unparse(loops[1].iter) != 'range(L - 2, -1, -1)':
        problems.append('sweep ranges: QR over range(1, L-1), SVD back over range(L-2, -1, -1)')
    # singular values normalised before being stored
    for lp in loops[1:2]:
        body = ' '.join(unparse(b) for b in lp.body)
        if 'S = S / np.linalg.norm(S)' not in body and 'S /= np.linalg.norm(S)' not in body:
            problems.append('singular values must be normalised before set_SL')
        if "self.get_B(i, 'A')" not in body or 'self.set_SL(i, S)' not in body:
            problems.append('back sweep must read the A-form tensors and store S on the left bond')
        if "U.scale_axis(S, 'vR')" not in body:
            problems.append('U*S of the previous step must be absorbed into the next tensor')
    if 'self.norm = self.norm * np.linalg.norm(S)' not in src or 'if not renormalize' not in src:
        problems.append('without renormalize the norm of the state must be kept in self.norm')
    for p in problems:
        rep.violation('FORM-canonical', m, 'MPS.canonical_form_finite', 'canon:' + p[:40], p,
                      f.lineno)
    # convert_form stores exactly the form it requested
    g = m.func('MPS.convert_form')
    rep.instance('FORM-canonical', {'function': 'MPS.convert_form'})
    gb = [c for c in body_nodes(g) if isinstance(c, ast.Call) and dotted(c.func) == 'self.get_B']
    sb = [c for c in body_nodes(g) if isinstance(c, ast.Call) and dotted(c.func) == 'self.set_B']
    ok = bool(gb) and bool(sb) and unparse(kwarg(gb[0], 'form')) == unparse(kwarg(sb[0], 'form'))
    if not ok:
        rep.violation('FORM-canonical', m, 'MPS.convert_form', 'convert',
                      'convert_form must store each tensor with the form it was converted to',
                      g.lineno)
    # get_theta: right neighbours contribute B with left exponent 1 - nuR(previous)
    h = m.func('MPS.get_theta')
    rep.instance('FORM-canonical', {'function': 'MPS.get_theta'})
    srch = unparse(h)
    if '(1.0 - old_fR, new_fR)' not in srch or '(formL, None)' not in srch or \
            "axes=['vR', 'vL']" not in srch:
        rep.violation('FORM-canonical', m, 'MPS.get_theta', 'theta',
                      'theta = B_i(formL, .) * B_{i+1}(1 - nuR_i, .) ...: each bond\'s singular '
                      'values must enter exactly once', h.lineno)
    # entanglement entropy from squared Schmidt values of the correct bond
    e = m.func('MPS.entanglement_entropy')
    rep.instance('FORM-canonical', {'function': 'MPS.entanglement_entropy'})
    srce = unparse(e)
    if 'entropy(s ** 2, n)' not in srce or 'self.get_SL(ib)' not in srce or \
            'self.get_SR(ib - 1)' not in srce:
        rep.violation('FORM-canonical', m, 'MPS.entanglement_entropy', 'entropy',
                      'entropy of bond ib uses the squared singular values left of site ib '
                      '(right of site L-1 for ib == L)', e.lineno)


def run(prog, rep, tier):
    rep.rule('FORM-isometry', 'typestate on direct flows: a tensor that is the U/Q output of a '
             'factorization is stored as form A, a VH output as form B (through relabelling / '
             'splitting; skipped when singular values were multiplied in)')
    rep.rule('MPS-form-* (shared with C09)', 'get_B side pairing, set_svd_theta, table of forms, '
             'rebuilt tensors vs recorded forms')
    rep.rule('FORM-canonical', 'structure of canonical_form_finite, convert_form, get_theta, '
             'entanglement_entropy')
    n = check_isometry_forms(prog, rep)
    check_form_flow(prog, rep)
    check_canonical_form(prog, rep)
    rep.floor('FORM-isometry', 8)
    rep.assumptions += ['nothing about the represented vector, Schmidt values or entropies is '
                        'decided']
    return rep.finish(
        level='other',
        explanation='Canonical-form bookkeeping decided on direct flows: %d set_B sites whose '
        'tensor is the output of a factorization, plus side pairing and table rules.' % n)
