"""C15 — truncation: structure of the constraint pipeline (R-TRUNC), error flow and
renormalisation pairing in the truncated decompositions. Numerical statements are not decided."""
import ast
import re

from ..core import (AnalysisError, body_nodes, call_name, docstring, dotted, key_text, kwarg,
                    names_in, params, parent, stmts_of, unparse)
from ..normal import inline_temps
from ..pattern import find, guards_of, pmatch
from ..flow import check_errflow
from ..linform import NotPoly, Poly, eval_poly

TR = 'tenpy/linalg/truncation.py'
DOC_ORDER_FALLBACK = ['chi_max', 'chi_min', 'degeneracy_tol', 'svd_min', 'trunc_cut']


def _doc_order(f):
    doc = docstring(f)
    m = re.search(r'cfg:config\s*::\s*truncation(.*?)(\n\s*Returns|\n\s*Parameters\n|\Z)', doc,
                  re.S)
    names = []
    if m:
        for line in m.group(1).splitlines():
            mm = re.match(r'^\s{4,12}(\w+)\s*:\s', line)
            if mm:
                names.append(mm.group(1))
    known = [n for n in names if n in DOC_ORDER_FALLBACK]
    return known if len(known) == len(DOC_ORDER_FALLBACK) else None


def check_truncate(prog, rep):
    m = prog.module(TR)
    rep.unit(m)
    f = m.func('truncate')
    q = 'truncate'
    # option variables: name = options.get('opt', ...)
    optvar = {}
    for st in stmts_of(f):
        if isinstance(st, ast.Assign) and isinstance(st.value, ast.Call) and \
                dotted(st.value.func) == 'options.get' and st.value.args and isinstance(
                    st.value.args[0], ast.Constant):
            optvar[unparse(st.targets[0])] = st.value.args[0].value
    # (1) updates of the accumulated mask
    acc = None
    updates = []
    for st in stmts_of(f):
        if isinstance(st, ast.Assign) and isinstance(st.targets[0], ast.Name) and isinstance(
                st.value, ast.Call) and call_name(st.value) == '_combine_constraints':
            updates.append(st)
            acc = st.targets[0].id
    if len(updates) < 3 or acc is None:
        raise AnalysisError('truncate: constraint pipeline (_combine_constraints updates) not found')
    inits = [st for st in stmts_of(f) if isinstance(st, ast.Assign) and
             unparse(st.targets[0]) == acc and st not in updates]
    rep.instance('TRUNC-init', {'acc': acc, 'init': [key_text(s) for s in inits]})
    if len(inits) != 1 or 'np.ones' not in unparse(inits[0].value):
        rep.violation('TRUNC-init', m, q, 'mask-init',
                      'the accumulated mask `%s` must start as all-True and afterwards only be '
                      'updated through _combine_constraints' % acc, f.lineno)
    order = []
    for st in updates:
        c = st.value
        name = c.args[2].value if len(c.args) >= 3 and isinstance(c.args[2], ast.Constant) else None
        order.append(name)
        rep.instance('TRUNC-combine', {'update': key_text(st)})
        if not (isinstance(c.args[0], ast.Name) and c.args[0].id == acc):
            rep.violation('TRUNC-combine', m, q, 'priority-arg:%s' % name,
                          '`%s`: the accumulated mask must be the FIRST argument (it is what '
                          '_combine_constraints falls back to when the new constraint cannot be '
                          'satisfied); otherwise an unsatisfiable later constraint overrides the '
                          'earlier, higher-priority ones' % key_text(st), st.lineno)
        # fresh mask depends on the option of that name
        fresh = c.args[1]
        guard = parent(st)
        optnames = {v for v, o in optvar.items() if o == name}
        if not isinstance(guard, ast.If) or not (names_in(guard.test) & optnames):
            rep.violation('TRUNC-combine', m, q, 'guard:%s' % name,
                          'constraint %r must be applied under a test of its own option' % name,
                          st.lineno)
        elif names_in(guard.test) - optnames - {'np'}:
            rep.violation('TRUNC-combine', m, q, 'guard-depends-on-data:%s' % name,
                          'whether constraint %r applies is decided by `%s`, which also depends '
                          'on %s: a constraint is switched on by its option alone; whether it can '
                          'be satisfied for the given spectrum is the business of '
                          '_combine_constraints (fallback with a warning), so a data-dependent '
                          'guard silently drops a satisfiable, higher-priority constraint' %
                          (name, unparse(guard.test), sorted(names_in(guard.test) - optnames)),
                          st.lineno)
        else:
            blk = guard.body
            uses = set()
            for b in blk:
                uses |= names_in(b)
            if not (uses & optnames):
                rep.violation('TRUNC-combine', m, q, 'mask-independent-of-option:%s' % name,
                              'the mask of constraint %r does not depend on its option' % name,
                              st.lineno)
    # (2) documented priority
    doc = _doc_order(f) or DOC_ORDER_FALLBACK
    rep.instance('TRUNC-order', {'code': order, 'documented': doc})
    if order != doc:
        rep.violation('TRUNC-order', m, q, 'constraint-order',
                      'constraints are combined in the order %s but the documented priority is %s' %
                      (order, doc), updates[0].lineno)
    # (3) _combine_constraints
    g = m.func('_combine_constraints')
    pm = params(g)
    rep.instance('TRUNC-fallback', {})
    rets = [r for r in stmts_of(g) if isinstance(r, ast.Return)]
    ok = False
    if len(rets) == 2:
        r_ok, r_fail = rets
        p0 = parent(r_ok)
        res_name = unparse(r_ok.value)
        defs = [s for s in stmts_of(g) if isinstance(s, ast.Assign) and
                unparse(s.targets[0]) == res_name]
        if isinstance(p0, ast.If) and 'np.any(%s)' % res_name in unparse(p0.test) and defs and \
                isinstance(defs[0].value, ast.Call) and dotted(defs[0].value.func) in (
                    'np.logical_and', ) and {unparse(a) for a in defs[0].value.args} == set(
                        pm[:2]) and unparse(r_fail.value) == pm[0]:
            ok = True
    if not ok:
        rep.violation('TRUNC-fallback', m, '_combine_constraints', 'fallback',
                      '_combine_constraints must return logical_and(%s, %s) if any entry is True '
                      'and otherwise its FIRST argument' % (pm[0], pm[1]), g.lineno)
    # (5) shape of individual masks
    for st in updates:
        name = st.value.args[2].value if isinstance(st.value.args[2], ast.Constant) else None
        guard = parent(st)
        if not isinstance(guard, ast.If):
            continue
        fresh = unparse(st.value.args[1])
        blk = guard.body
        var = [v for v, o in optvar.items() if o == name]
        if not var:
            continue
        var = var[0]
        if name in ('chi_max', 'chi_min'):
            rep.instance('TRUNC-mask-shape', {'constraint': name})
            init = [b for b in blk if isinstance(b, ast.Assign) and
                    unparse(b.targets[0]) == fresh]
            sl = [b for b in blk if isinstance(b, ast.Assign) and isinstance(
                b.targets[0], ast.Subscript) and unparse(b.targets[0].value) == fresh]
            ok = False
            if init and sl and isinstance(sl[0].targets[0].slice, ast.Slice):
                s = sl[0].targets[0].slice
                try:
                    lo = eval_poly(s.lower, {}) if s.lower is not None else None
                except NotPoly:
                    lo = None
                val = unparse(sl[0].value)
                base = unparse(init[0].value)
                if name == 'chi_max':
                    ok = s.upper is None and lo == -Poly.sym(var) and val == 'True' and \
                        'np.zeros' in base
                else:
                    ok = s.upper is None and lo == Poly.const(1) - Poly.sym(var) and \
                        val == 'False' and 'np.ones' in base
            if not ok:
                rep.violation('TRUNC-mask-shape', m, q, 'mask:' + name,
                              'the allowed-cut mask of %r must allow exactly the cuts keeping %s '
                              '%s values of the ascending spectrum' %
                              (name, 'at most' if name == 'chi_max' else 'at least', var),
                              guard.lineno)
        if name in ('svd_min', 'trunc_cut', 'degeneracy_tol'):
            rep.instance('TRUNC-mask-shape', {'constraint': name})
            src = ' '.join(unparse(b) for b in blk)
            ok = False
            for n in ast.walk(guard):
                if isinstance(n, ast.Compare) and var in names_in(n) and isinstance(
                        n.ops[0], (ast.Gt, ast.GtE)) and var in names_in(n.comparators[0]):
                    ok = True
                if isinstance(n, ast.Call) and dotted(n.func) in ('np.greater_equal',
                                                                   'np.greater') and \
                        len(n.args) == 2 and var in names_in(n.args[1]):
                    ok = True
            if name == 'trunc_cut' and 'np.cumsum' not in src:
                ok = False
            if not ok:
                rep.violation('TRUNC-mask-shape', m, q, 'mask:' + name,
                              'the mask of %r must mark a cut as allowed where the quantity is '
                              '>= / > the option (direction of the comparison)' % name,
                              guard.lineno)
    # (6) final cut, mask, norm and error from the SAME mask
    rep.instance('TRUNC-report', {})
    src = unparse(f)
    ret = [r for r in stmts_of(f) if isinstance(r, ast.Return)][-1]
    ok = isinstance(ret.value, ast.Tuple) and len(ret.value.elts) == 3
    problems = []
    if ok:
        mask_n = unparse(ret.value.elts[0])
        norm_n = ret.value.elts[1]
        err_e = ret.value.elts[2]
        # cut = first allowed index of acc
        cuts = [s for s in stmts_of(f) if isinstance(s, ast.Assign) and
                'np.nonzero(%s)[0][0]' % acc in unparse(s.value)]
        if not cuts:
            problems.append('cut must be the first index allowed by the accumulated mask')
        else:
            cutn = unparse(cuts[0].targets[0])
            put = [c for c in body_nodes(f) if isinstance(c, ast.Call) and
                   dotted(c.func) == 'np.put' and unparse(c.args[0]) == mask_n]
            okp = put and re.fullmatch(r'(\w+)\[%s:\]' % cutn, unparse(put[0].args[1])) and \
                unparse(put[0].args[2]) == 'True'
            direct = [s for s in stmts_of(f) if isinstance(s, ast.Assign) and re.fullmatch(
                r'%s\[(\w+)\[%s:\]\]' % (mask_n, cutn), unparse(s.targets[0])) and
                unparse(s.value) == 'True']
            if not (okp or direct):
                problems.append('the kept set must be piv[cut:] (a suffix of the ascending order)')
            else:
                pivn = re.fullmatch(r'(\w+)\[%s:\]' % cutn, unparse(put[0].args[1])).group(1) \
                    if okp else None
                if pivn:
                    pv = [s for s in stmts_of(f) if isinstance(s, ast.Assign) and
                          unparse(s.targets[0]) == pivn]
                    if not pv or 'np.argsort(' not in unparse(pv[0].value) or \
                            '-' in unparse(pv[0].value) or '::-1' in unparse(pv[0].value):
                        problems.append('piv must be the ascending argsort of the spectrum')
        # norm and error on the normal form (named intermediate values do not matter)
        nf = inline_temps(f)
        nret = [r for r in nf.body if isinstance(r, ast.Return)]
        nv = nret[-1].value if nret and isinstance(nret[-1].value, ast.Tuple) and \
            len(nret[-1].value.elts) == 3 else None
        ntxt = unparse(nv.elts[1]) if nv is not None else ''
        if ('S[%s]' % mask_n) not in ntxt or 'logical_not' in ntxt or '~' in ntxt or \
                not ('norm' in ntxt or 'sqrt' in ntxt):
            problems.append('norm_new must be the norm of the kept values S[%s]' % mask_n)
        ee = nv.elts[2] if nv is not None else err_e
        if not (pmatch('TruncationError.from_S(S[np.logical_not(%s)])' % mask_n, ee) or
                pmatch('TruncationError.from_S(S[~%s])' % mask_n, ee) or
                pmatch('TruncationError.from_S(S[%s == False])' % mask_n, ee)):
            problems.append('the error must be TruncationError.from_S of the discarded values '
                            'S[~%s] of the same mask' % mask_n)
    else:
        problems.append('truncate must return (mask, norm_new, err)')
    for p in problems:
        rep.violation('TRUNC-report', m, q, 'report:' + p[:40], p, ret.lineno)


def check_truncation_error(prog, rep):
    m = prog.module(TR)
    f = m.func('TruncationError.from_S')
    rep.instance('TRUNC-error-def', {'function': 'from_S'})
    ok = False
    for s in stmts_of(f):
        if isinstance(s, ast.Assign) and unparse(s.targets[0]) == 'eps':
            v = unparse(s.value)
            pm = params(f)[1]
            if v in ('np.sum(np.square(%s))' % pm, 'np.sum(%s ** 2)' % pm,
                     'np.sum(%s * %s)' % (pm, pm), 'np.dot(%s, %s)' % (pm, pm),
                     'np.linalg.norm(%s) ** 2' % pm, 'np.sum(np.abs(%s) ** 2)' % pm):
                ok = True
    if not ok:
        rep.violation('TRUNC-error-def', m, 'TruncationError.from_S', 'eps-def',
                      'eps must be the sum of squares of the discarded values', f.lineno)
    g = m.func('TruncationError.__add__')
    rep.instance('TRUNC-error-def', {'function': '__add__'})
    src = unparse(g)
    o = params(g)[1]
    if not (re.search(r'\.eps = self\.eps \+ %s\.eps' % o, src) or
            re.search(r'\.eps = %s\.eps \+ self\.eps' % o, src)) or not (
                re.search(r'\.ov = self\.ov \* %s\.ov' % o, src) or
                re.search(r'\.ov = %s\.ov \* self\.ov' % o, src)):
        rep.violation('TRUNC-error-def', m, 'TruncationError.__add__', 'add-def',
                      'errors add in eps and multiply in ov', g.lineno)
    # __add__ must not mutate self (+= on accumulators elsewhere relies on a fresh object)
    for n in body_nodes(g):
        if isinstance(n, ast.Attribute) and isinstance(n.ctx, ast.Store) and \
                dotted(n.value) in ('self', o):
            rep.violation('TRUNC-error-def', m, 'TruncationError.__add__', 'add-mutates',
                          '__add__ writes into an operand: accumulated errors stored elsewhere '
                          'change retroactively', n.lineno)


def check_svd_theta(prog, rep):
    m = prog.module(TR)
    f = m.func('svd_theta')
    q = 'svd_theta'
    rep.instance('TRUNC-svd-theta', {})
    tr = [s for s in stmts_of(f) if isinstance(s, ast.Assign) and isinstance(s.value, ast.Call)
          and call_name(s.value) == 'truncate']
    sv = [s for s in stmts_of(f) if isinstance(s, ast.Assign) and isinstance(s.value, ast.Call)
          and dotted(s.value.func) == 'npc.svd']
    if not tr or not sv:
        raise AnalysisError('svd_theta: npc.svd / truncate calls not found')
    pivn, normn, errn = [unparse(e) for e in tr[0].targets[0].elts]
    Un, Sn, Vn = [unparse(e) for e in sv[0].targets[0].elts]
    problems = []
    # spectrum normalised before truncation by the renormalization factor
    ren = [s for s in stmts_of(f) if isinstance(s, ast.Assign) and
           unparse(s.value) == 'np.linalg.norm(%s)' % Sn]
    if not ren:
        problems.append('renormalization must start as the norm of the full spectrum')
    else:
        rn = unparse(ren[0].targets[0])
        if not any(isinstance(s, ast.Assign) and unparse(s.targets[0]) == Sn and
                   unparse(s.value) == '%s / %s' % (Sn, rn) and s.lineno < tr[0].lineno
                   for s in stmts_of(f)) and not any(
                       isinstance(s, ast.AugAssign) and unparse(s.target) == Sn and isinstance(
                           s.op, ast.Div) and unparse(s.value) == rn and s.lineno < tr[0].lineno
                       for s in stmts_of(f)):
            problems.append('the spectrum must be normalised before truncate() so the reported '
                            'error is relative')
        if not any(isinstance(s, ast.AugAssign) and unparse(s.target) == rn and isinstance(
                s.op, ast.Mult) and unparse(s.value) == normn for s in stmts_of(f)) and not any(
                    isinstance(s, ast.Assign) and unparse(s.targets[0]) == rn and
                    unparse(s.value) in ('%s * %s' % (rn, normn), '%s * %s' % (normn, rn))
                    for s in stmts_of(f)):
            problems.append('renormalization must be multiplied by the norm of the kept values')
        ret = [r for r in stmts_of(f) if isinstance(r, ast.Return)][-1]
        if [unparse(e) for e in ret.value.elts] != [Un, Sn, Vn, errn, rn]:
            problems.append('svd_theta must return (U, S, VH, err, renormalization) — the error '
                            'being the one reported by truncate()')
    if not any(isinstance(s, ast.Assign) and unparse(s.targets[0]) == Sn and
               unparse(s.value) == '%s[%s] / %s' % (Sn, pivn, normn) for s in stmts_of(f)):
        problems.append('kept singular values must be S[mask] / norm_new')
    pr = {}
    for c in body_nodes(f):
        if isinstance(c, ast.Call) and isinstance(c.func, ast.Attribute) and \
                c.func.attr == 'iproject':
            ax = c.args[1] if len(c.args) > 1 else kwarg(c, 'axes')
            pr[unparse(c.func.value)] = (unparse(c.args[0]), unparse(ax))
    if pr.get(Un) != (pivn, '1') or pr.get(Vn) != (pivn, '0'):
        problems.append('U must be projected on axis 1 and VH on axis 0 with the SAME mask that '
                        'selects S (got %s)' % pr)
    for p in problems:
        rep.violation('TRUNC-svd-theta', m, q, 'svd-theta:' + p[:40], p, f.lineno)
    # eig-based twin
    g = m.func('_eig_based_svd')
    rep.instance('TRUNC-svd-theta', {'function': '_eig_based_svd'})
    tr = [s for s in stmts_of(g) if isinstance(s, ast.Assign) and isinstance(s.value, ast.Call)
          and call_name(s.value) == 'truncate']
    if tr:
        pivn, normn, errn = [unparse(e) for e in tr[0].targets[0].elts]
        pr = {}
        for c in body_nodes(g):
            if isinstance(c, ast.Call) and isinstance(c.func, ast.Attribute) and \
                    c.func.attr == 'iproject':
                pr[unparse(c.func.value)] = (unparse(c.args[0]), unparse(c.args[1]))
        if pr.get('U') != (pivn, '1') or pr.get('Vd') != (pivn, '0'):
            rep.violation('TRUNC-svd-theta', m, '_eig_based_svd', 'project-axes',
                          'U/Vd must be projected with the truncation mask on axes 1/0', g.lineno)
        ret = [r for r in stmts_of(g) if isinstance(r, ast.Return)][-1]
        if [unparse(e) for e in ret.value.elts][3:] != [errn, normn]:
            rep.violation('TRUNC-svd-theta', m, '_eig_based_svd', 'return',
                          'must return the error and norm reported by truncate()', g.lineno)
    # eigh_rho
    h = m.func('eigh_rho')
    rep.instance('TRUNC-svd-theta', {'function': 'eigh_rho'})
    check_errflow(h, {'truncate': 2}, 'eigh_rho', m, rep, 'TRUNC-errflow')
    check_errflow(f, {'truncate': 2}, 'svd_theta', m, rep, 'TRUNC-errflow')
    check_errflow(g, {'truncate': 2}, '_eig_based_svd', m, rep, 'TRUNC-errflow')


def run(prog, rep, tier):
    rep.rule('TRUNC-*', 'structure of truncate(): mask initialisation, constraint combination with '
             'the accumulated mask first (priority), documented order, fallback of '
             '_combine_constraints, mask shapes, kept set = suffix of ascending order, norm and '
             'error computed from the same mask; renormalisation / projection pairing in the '
             'truncated decompositions')
    check_truncate(prog, rep)
    check_truncation_error(prog, rep)
    check_svd_theta(prog, rep)
    rep.floor('TRUNC-combine', 5)
    rep.floor('TRUNC-mask-shape', 5)
    rep.assumptions += ['numerical statements about spectra are NOT decided']
    return rep.finish(
        level='other',
        explanation='Constraint pipeline of truncate() and the renormalisation/projection pairing '
        'of svd_theta/_eig_based_svd/eigh_rho decided structurally on the current source; the '
        'documented priority is read from the docstring of truncate().')
