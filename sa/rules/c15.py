"""C15 — truncation: structure of the constraint pipeline (R-TRUNC), error flow and
renormalisation pairing in the truncated decompositions. Numerical statements are not decided."""
import ast
import re

from ..core import (AnalysisError, body_nodes, call_name, docstring, dotted, key_text, kwarg,
                    names_in, params, parent, stmts_of, unparse)
from ..normal import inline_temps
from ..pattern import find, guards_of, pmatch
from ..flow import check_errflow
from ..linform import NotPoly, Poly, eval_poly

TR = 'tenpy/linalg/truncation.py'
DOC_ORDER_FALLBACK = ['chi_max', 'chi_min', 'degeneracy_tol', 'svd_min', 'trunc_cut']


def _doc_order(f):
    doc = docstring(f)
    m = re.search(r'cfg:config\s*::\s*truncation(.*?)(\n\s*Returns|\n\s*Parameters\n|\Z)', doc,
                  re.S)
    names = []
    if m:
        for line in m.group(1).splitlines():
            mm = re.match(r'^\s{4,12}(\w+)\s*:\s', line)
            if mm:
                names.append(mm.group(1))
    known = [n for n in names if n in DOC_ORDER_FALLBACK]
    return known if len(known) == len(DOC_ORDER_FALLBACK) else None


def check_truncate(prog, rep):
    m = prog.module(TR)
    rep.unit(m)
    f = m.func('truncate')
    q = 'truncate'
    # option variables: name = options.get('opt', ...)
    optvar = {}
    for st in stmts_of(f):
        if isinstance(st, ast.Assign) and isinstance(st.value, ast.Call) and \
                dotted(st.value.func) == 'options.get' and st.value.args and isinstance(
                    st.value.args[0], ast.Constant):
            optvar[unparse(st.targets[0])] = st.value.args[0].value
    # (1) updates of the accumulated mask
    acc = None
    updates = []
    for st in stmts_of(f):
        if isinstance(st, ast.Assign) and isinstance(st.targets[0], ast.Name) and isinstance(
                st.value, ast.Call) and call_name(st.value) == '_combine_constraints':
            updates.append(st)
            acc = st.targets[0].id
    if len(updates) < 3 or acc is None:
        raise AnalysisError('truncate: constraint pipeline (_combine_constraints updates) not found')
    inits = [st for st in stmts_of(f) if isinstance(st, ast.Assign) and
             unparse(st.targets[0]) == acc and st not in updates]
    rep.instance('TRUNC-init', {'acc': acc, 'init': [key_text(s) for s in inits]})
    if len(inits) != 1 or 'np.ones' not in unparse(inits[0].value):
        rep.violation('TRUNC-init', m, q, 'mask-init',
                      'the accumulated mask `%s` must start as all-True and afterwards only be '
                      'updated through _combine_constraints' % acc, f.lineno)
    order = []
    for st in updates:
        c = st.value
        name = c.args[2].value if len(c.args) >= 3 and isinstance(c.args[2], ast.Constant) else None
        order.append(name)
        rep.instance('TRUNC-combine', {'update': key_text(st)})
        if not (isinstance(c.args[0], ast.Name) and c.args[0].id == acc):
            rep.violation('TRUNC-combine', m, q, 'priority-arg:%s' % name,
                          '`%s`: the accumulated mask must be the FIRST argument (it is what '
                          '_combine_constraints falls back to when the new constraint cannot be '
                          'satisfied); otherwise an unsatisfiable later constraint overrides the '
                          'earlier, higher-priority ones' % key_text(st), st.lineno)
        # fresh mask depends on the option of that name
        fresh = c.args[1]
        guard = parent(st)
        optnames = {v for v, o in optvar.items() if o == name}
        if not isinstance(guard, ast.If) or not (names_in(guard.test) & optnames):
            rep.violation('TRUNC-combine', m, q, 'guard:%s' % name,
                          'constraint %r must be applied under a test of its own option' % name,
                          st.lineno)
        elif names_in(guard.test) - optnames - {'np'}:
            rep.violation('TRUNC-combine', m, q, 'guard-depends-on-data:%s' % name,
                          'whether constraint %r applies is decided by `%s`, which also depends '
                          'on %s: a constraint is switched on by its option alone; whether it can '
                          'be satisfied for the given spectrum is the business of '
                          '_combine_constraints (fallback with a warning), so a data-dependent '
                          'guard silently drops a satisfiable, higher-priority constraint' %
                          (name, unparse(guard.test), sorted(names_in(guard.test) - optnames)),
                          st.lineno)
        else:
            blk = guard.body
            uses = set()
            for b in blk:
                uses |= names_in(b)
            if not (uses & optnames):
                rep.violation('TRUNC-combine', m, q, 'mask-independent-of-option:%s' % name,
                              'the mask of constraint %r does not depend on its option' % name,
                              st.lineno)
    # (2) documented priority
    doc = _doc_order(f) or DOC_ORDER_FALLBACK
    rep.instance('TRUNC-order', {'code': order, 'documented': doc})
    if order != doc:
        rep.violation('TRUNC-order', m, q, 'constraint-order',
                      'constraints are combined in the order %s but the documented priority is %s' %
                      (order, doc), updates[0].lineno)
    # (3) _combine_constraints
    g = m.func('_combine_constraints')
    pm = params(g)
    rep.instance('TRUNC-fallback', {})
    rets = [r for r in stmts_of(g) if isinstance(r, ast.Return)]
    ok = False
    if len(rets) == 2:
        r_ok, r_fail = rets
        p0 = parent(r_ok)
        res_name = unparse(r_ok.value)
        defs = [s for s in stmts_of(g) if isinstance(s, ast.Assign) and
                unparse(s.targets[0]) == res_name]
        if isinstance(p0, ast.If) and 'np.any(%s)' % res_name in unparse(p0.test) and defs and \
                isinstance(defs[0].value, ast.Call) and dotted(defs[0].value.func) in (
                    'np.logical_and', ) and {unparse(a) for a in defs[0].value.args} == set(
                        pm[:2]) and unparse(r_fail.value) == pm[0]:
            ok = True
    if not ok:
        rep.violation('TRUNC-fallback', m, '_combine_constraints', 'fallback',
                      '_combine_constraints must return logical_and(%s, %s) if any entry is True '
                      'and otherwise its FIRST argument' % (pm[0], pm[1]), g.lineno)
    # (5) shape of individual masks
    for st in updates:
        name = st.value.args[2].value if isinstance(st.value.args[2], ast.Constant) else None
        guard = parent(st)
        if not isinstance(guard, ast.If):
            continue
        fresh = unparse(st.value.args[1])
        blk = guard.body
        var = [v for v, o in optvar.items() if o == name]
        if not var:
            continue
        var = var[0]
        if name in ('chi_max', 'chi_min'):
            rep.instance('TRUNC-mask-shape', {'constraint': name})
            init = [b for b in blk if isinstance(b, ast.Assign) and
                    unparse(b.targets[0]) == fresh]
            sl = [b for b in blk if isinstance(b, ast.Assign) and isinstance(
                b.targets[0], ast.Subscript) and unparse(b.targets[0].value) == fresh]
            ok = False
            if init and sl and isinstance(sl[0].targets[0].slice, ast.Slice):
                s = sl[0].targets[0].slice
                # named intermediate bounds (`first_bad = -chi_min + 1`) are expanded
                env = {}
                for b in blk:
                    if isinstance(b, ast.Assign) and isinstance(b.targets[0], ast.Name) and \
                            b.targets[0].id not in (fresh, var):
                        try:
                            env[b.targets[0].id] = eval_poly(b.value, dict(env))
                        except NotPoly:
                            pass
                try:
                    lo = eval_poly(s.lower, env) if s.lower is not None else None
                except NotPoly:
                    lo = None
                val = unparse(sl[0].value)
                base = unparse(init[0].value)
                if name == 'chi_max':
                    ok = s.upper is None and lo == -Poly.sym(var) and val == 'True' and \
                        'np.zeros' in base
                else:
                    ok = s.upper is None and lo == Poly.const(1) - Poly.sym(var) and \
                        val == 'False' and 'np.ones' in base
            if not ok:
                rep.violation('TRUNC-mask-shape', m, q, 'mask:' + name,
                              'the allowed-cut mask of %r must allow exactly the cuts keeping %s '
                              '%s values of the ascending spectrum' %
                              (name, 'at most' if name == 'chi_max' else 'at least', var),
                              guard.lineno)
        if name in ('svd_min', 'trunc_cut', 'degeneracy_tol'):
            rep.instance('TRUNC-mask-shape', {'constraint': name})
            # on the normal form (option variables and masks kept): named intermediate values
            # such as `log_svd_min = np.log(svd_min)` are expanded
            nf = inline_temps(f, keep=tuple(optvar) + (acc, fresh))
            g2 = [parent(s2) for s2 in stmts_of(nf) if isinstance(s2, ast.Assign) and isinstance(
                s2.value, ast.Call) and call_name(s2.value) == '_combine_constraints' and
                len(s2.value.args) == 3 and isinstance(s2.value.args[2], ast.Constant) and
                s2.value.args[2].value == name]
            guard_n = g2[0] if g2 and isinstance(g2[0], ast.If) else guard
            src = ' '.join(unparse(b) for b in guard_n.body)
            ok = False
            for n in ast.walk(guard_n):
                if isinstance(n, ast.Compare) and var in names_in(n) and isinstance(
                        n.ops[0], (ast.Gt, ast.GtE)) and var in names_in(n.comparators[0]):
                    ok = True
                if isinstance(n, ast.Call) and dotted(n.func) in ('np.greater_equal',
                                                                   'np.greater') and \
                        len(n.args) == 2 and var in names_in(n.args[1]):
                    ok = True
            if name == 'trunc_cut' and 'np.cumsum' not in src:
                ok = False
            if not ok:
                rep.violation('TRUNC-mask-shape', m, q, 'mask:' + name,
                              'the mask of %r must mark a cut as allowed where the quantity is '
                              '>= / > the option (direction of the comparison)' % name,
                              guard.lineno)
    # (6) final cut, mask, norm and error from the SAME mask
    rep.instance('TRUNC-report', {})
    src = unparse(f)
    ret = [r for r in stmts_of(f) if isinstance(r, ast.Return)][-1]
    ok = isinstance(ret.value, ast.Tuple) and len(ret.value.elts) == 3
    problems = []
    if ok:
        mask_n = unparse(ret.value.elts[0])
        norm_n = ret.value.elts[1]
        err_e = ret.value.elts[2]
        # cut = first allowed index of acc
        cuts = [s for s in stmts_of(f) if isinstance(s, ast.Assign) and
                'np.nonzero(%s)[0][0]' % acc in unparse(s.value)]
        if not cuts:
            problems.append('cut must be the first index allowed by the accumulated mask')
        else:
            cutn = unparse(cuts[0].targets[0])
            put = [c for c in body_nodes(f) if isinstance(c, ast.Call) and
                   dotted(c.func) == 'np.put' and unparse(c.args[0]) == mask_n]
            okp = put and re.fullmatch(r'(\w+)\[%s:\]' % cutn, unparse(put[0].args[1])) and \
                unparse(put[0].args[2]) == 'True'
            direct = [s for s in stmts_of(f) if isinstance(s, ast.Assign) and re.fullmatch(
                r'%s\[(\w+)\[%s:\]\]' % (mask_n, cutn), unparse(s.targets[0])) and
                unparse(s.value) == 'True']
            if not (okp or direct):
                problems.append('the kept set must be piv[cut:] (a suffix of the ascending order)')
            else:
                pivn = re.fullmatch(r'(\w+)\[%s:\]' % cutn, unparse(put[0].args[1])).group(1) \
                    if okp else None
                if pivn:
                    pv = [s for s in stmts_of(f) if isinstance(s, ast.Assign) and
                          unparse(s.targets[0]) == pivn]
                    if not pv or 'np.argsort(' not in unparse(pv[0].value) or \
                            '-' in unparse(pv[0].value) or '::-1' in unparse(pv[0].value):
                        problems.append('piv must be the ascending argsort of the spectrum')
        # norm and error on the normal form (named intermediate values do not matter)
        nf = inline_temps(f)
        nret = [r for r in nf.body if isinstance(r, ast.Return)]
        nv = nret[-1].value if nret and isinstance(nret[-1].value, ast.Tuple) and \
            len(nret[-1].value.elts) == 3 else None
        ntxt = unparse(nv.elts[1]) if nv is not None else ''
        if ('S[%s]' % mask_n) not in ntxt or 'logical_not' in ntxt or '~' in ntxt or \
                not ('norm' in ntxt or 'sqrt' in ntxt):
            problems.append('norm_new must be the norm of the kept values S[%s]' % mask_n)
        ee = nv.elts[2] if nv is not None else err_e
        if not (pmatch('TruncationError.from_S(S[np.logical_not(%s)])' % mask_n, ee) or
                pmatch('TruncationError.from_S(S[~%s])' % mask_n, ee) or
                pmatch('TruncationError.from_S(S[%s == False])' % mask_n, ee)):
            problems.append('the error must be TruncationError.from_S of the discarded values '
                            'S[~%s] of the same mask' % mask_n)
    else:
        problems.append('truncate must return (mask, norm_new, err)')
    for p in problems:
        rep.violation('TRUNC-report', m, q, 'report:' + p[:40], p, ret.lineno)


def check_truncation_error(prog, rep):
    m = prog.module(TR)
    f = m.func('TruncationError.from_S')
    rep.instance('TRUNC-error-def', {'function': 'from_S'})
    ok = False
    for s in stmts_of(f):
        if isinstance(s, ast.Assign) and unparse(s.targets[0]) == 'eps':
            v = unparse(s.value)
            pm = params(f)[1]
            if v in ('np.sum(np.square(%s))' % pm, 'np.sum(%s ** 2)' % pm,
                     'np.sum(%s * %s)' % (pm, pm), 'np.dot(%s, %s)' % (pm, pm),
                     'np.linalg.norm(%s) ** 2' % pm, 'np.sum(np.abs(%s) ** 2)' % pm):
                ok = True
    if not ok:
        rep.violation('TRUNC-error-def', m, 'TruncationError.from_S', 'eps-def',
                      'eps must be the sum of squares of the discarded values', f.lineno)
    g = m.func('TruncationError.__add__')
    rep.instance('TRUNC-error-def', {'function': '__add__'})
    src = unparse(g)
    o = params(g)[1]
    if not (re.search(r'\.eps = self\.eps \+ %s\.eps' % o, src) or
            re.search(r'\.eps = %s\.eps \+ self\.eps' % o, src)) or not (
                re.search(r'\.ov = self\.ov \* %s\.ov' % o, src) or
                re.search(r'\.ov = %s\.ov \* self\.ov' % o, src)):
        rep.violation('TRUNC-error-def', m, 'TruncationError.__add__', 'add-def',
                      'errors add in eps and multiply in ov', g.lineno)
    # __add__ must not mutate self (+= on accumulators elsewhere relies on a fresh object)
    for n in body_nodes(g):
        if isinstance(n, ast.Attribute) and isinstance(n.ctx, ast.Store) and \
                dotted(n.value) in ('self', o):
            rep.violation('TRUNC-error-def', m, 'TruncationError.__add__', 'add-mutates',
                          '__add__ writes into an operand: accumulated errors stored elsewhere '
                          'change retroactively', n.lineno)


def check_svd_theta(prog, rep):
    m = prog.module(TR)
    f = m.func('svd_theta')
    q = 'svd_theta'
    rep.instance('TRUNC-svd-theta', {})
    tr = [s for s in stmts_of(f) if isinstance(s, ast.Assign) and isinstance(s.value, ast.Call)
          and call_name(s.value) == 'truncate']
    sv = [s for s in stmts_of(f) if isinstance(s, ast.Assign) and isinstance(s.value, ast.Call)
          and dotted(s.value.func) == 'npc.svd']
    if not tr or not sv:
        raise AnalysisError('svd_theta: npc.svd / truncate calls not found')
    pivn, normn, errn = [unparse(e) for e in tr[0].targets[0].elts]
    Un, Sn, Vn = [unparse(e) for e in sv[0].targets[0].elts]
    problems = []
    # spectrum normalised before truncation by the renormalization factor
    ren = [s for s in stmts_of(f) if isinstance(s, ast.Assign) and
           unparse(s.value) == 'np.linalg.norm(%s)' % Sn]
    if not ren:
        problems.append('renormalization must start as the norm of the full spectrum')
    else:
        rn = unparse(ren[0].targets[0])
        if not any(isinstance(s, ast.Assign) and unparse(s.targets[0]) == Sn and
                   unparse(s.value) == '%s / %s' % (Sn, rn) and s.lineno < tr[0].lineno
                   for s in stmts_of(f)) and not any(
                       isinstance(s, ast.AugAssign) and unparse(s.target) == Sn and isinstance(
                           s.op, ast.Div) and unparse(s.value) == rn and s.lineno < tr[0].lineno
                       for s in stmts_of(f)):
            problems.append('the spectrum must be normalised before truncate() so the reported '
                            'error is relative')
        if not any(isinstance(s, ast.AugAssign) and unparse(s.target) == rn and isinstance(
                s.op, ast.Mult) and unparse(s.value) == normn for s in stmts_of(f)) and not any(
                    isinstance(s, ast.Assign) and unparse(s.targets[0]) == rn and
                    unparse(s.value) in ('%s * %s' % (rn, normn), '%s * %s' % (normn, rn))
                    for s in stmts_of(f)):
            problems.append('renormalization must be multiplied by the norm of the kept values')
        ret = [r for r in stmts_of(f) if isinstance(r, ast.Return)][-1]
        if [unparse(e) for e in ret.value.elts] != [Un, Sn, Vn, errn, rn]:
            problems.append('svd_theta must return (U, S, VH, err, renormalization) — the error '
                            'being the one reported by truncate()')
    if not any(isinstance(s, ast.Assign) and unparse(s.targets[0]) == Sn and
               unparse(s.value) == '%s[%s] / %s' % (Sn, pivn, normn) for s in stmts_of(f)):
        problems.append('kept singular values must be S[mask] / norm_new')
    pr = {}
    for c in body_nodes(f):
        if isinstance(c, ast.Call) and isinstance(c.func, ast.Attribute) and \
                c.func.attr == 'iproject':
            ax = c.args[1] if len(c.args) > 1 else kwarg(c, 'axes')
            pr[unparse(c.func.value)] = (unparse(c.args[0]), unparse(ax))
    if pr.get(Un) != (pivn, '1') or pr.get(Vn) != (pivn, '0'):
        problems.append('U must be projected on axis 1 and VH on axis 0 with the SAME mask that '
                        'selects S (got %s)' % pr)
    for p in problems:
        rep.violation('TRUNC-svd-theta', m, q, 'svd-theta:' + p[:40], p, f.lineno)
    # eig-based twin
    g = m.func('_eig_based_svd')
    rep.instance('TRUNC-svd-theta', {'function': '_eig_based_svd'})
    tr = [s for s in stmts_of(g) if isinstance(s, ast.Assign) and isinstance(s.value, ast.Call)
          and call_name(s.value) == 'truncate']
    if tr:
        pivn, normn, errn = [unparse(e) for e in tr[0].targets[0].elts]
        pr = {}
        for c in body_nodes(g):
            if isinstance(c, ast.Call) and isinstance(c.func, ast.Attribute) and \
                    c.func.attr == 'iproject':
                pr[unparse(c.func.value)] = (unparse(c.args[0]), unparse(c.args[1]))
        if pr.get('U') != (pivn, '1') or pr.get('Vd') != (pivn, '0'):
            rep.violation('TRUNC-svd-theta', m, '_eig_based_svd', 'project-axes',
                          'U/Vd must be projected with the truncation mask on axes 1/0', g.lineno)
        ret = [r for r in stmts_of(g) if isinstance(r, ast.Return)][-1]
        if [unparse(e) for e in ret.value.elts][3:] != [errn, normn]:
            rep.violation('TRUNC-svd-theta', m, '_eig_based_svd', 'return',
                          'must return the error and norm reported by truncate()', g.lineno)
    # eigh_rho
    h = m.func('eigh_rho')
    rep.instance('TRUNC-svd-theta', {'function': 'eigh_rho'})
    check_errflow(h, {'truncate': 2}, 'eigh_rho', m, rep, 'TRUNC-errflow')
    check_errflow(f, {'truncate': 2}, 'svd_theta', m, rep, 'TRUNC-errflow')
    check_errflow(g, {'truncate': 2}, '_eig_based_svd', m, rep, 'TRUNC-errflow')


def run(prog, rep, tier):
    rep.rule('TRUNC-*', 'structure of truncate(): mask initialisation, constraint combination with '
             'the accumulated mask first (priority), documented order, fallback of '
             '_combine_constraints, mask shapes, kept set = suffix of ascending order, norm and '
             'error computed from the same mask; renormalisation / projection pairing in the '
             'truncated decompositions')
    check_truncate(prog, rep)
    check_truncation_error(prog, rep)
    check_svd_theta(prog, rep)
    if check_value_dropped(prog, rep) < 2:
        raise AnalysisError('TRUNC-value-dropped: the gauge steps of _qr_theta_Y0 were not found')
    if check_first_cut(prog, rep) < 1:
        raise AnalysisError('TRUNC-first-cut: degeneracy mask not found / not determined')
    if check_scale(prog, rep) < 5:
        raise AnalysisError('TRUNC-scale: fewer than 5 scale obligations could be evaluated')
    rep.rule('OPTION-default-first', 'Config.get stores a missing default, so every reader of a '
             'truncation option outside truncate() agrees with truncate()\'s default, reads after '
             'truncate(), or handles the default value at once (explicit store / raise)')
    if check_option_defaults(prog, rep) < 6:
        raise AnalysisError('OPTION-default-first: fewer than 6 readers of truncation options')
    rep.rule('TRUNC-norm-version', 'a spectrum is not modified in place between taking its norm and '
             'dividing by it')
    if check_norm_version(prog, rep) < 1:
        raise AnalysisError('TRUNC-norm-version: normalisations of eigh_rho / svd_theta not found')
    rep.floor('TRUNC-combine', 5)
    rep.floor('TRUNC-mask-shape', 5)
    rep.assumptions += ['numerical statements about spectra are NOT decided']
    rep.rule('TRUNC-eps-reference', 'a relative truncation error is normalised by the norm of the '
             'tensor it approximates')
    if check_eps_reference(prog, rep) < 1:
        raise AnalysisError('TRUNC-eps-reference: eps of decompose_theta_qr_based not found')
    from ..flow import check_dead_computations
    rep.rule('VALUE-dead', 'no result of a call is bound to a local that is never read (reaching '
             'definitions)')
    check_dead_computations(prog, rep, ['tenpy/linalg/truncation.py'])
    from ..labels import check_labels
    rep.rule('LABEL-known', 'typestate of leg-label sets: literal labels used on a local tensor '
             'whose complete label set is known (literal transposition, contractions) exist on it')
    check_labels(prog, rep, ['tenpy/linalg/truncation.py'])
    return rep.finish(
        level='other',
        explanation='Constraint pipeline of truncate() and the renormalisation/projection pairing '
        'of svd_theta/_eig_based_svd/eigh_rho decided structurally on the current source; the '
        'documented priority is read from the docstring of truncate().')



# ------------------------------------------------------------------ TRUNC-eps-reference
def check_eps_reference(prog, rep):
    """A truncation error reported as eps = |x - x_approx|^2 / N^2 is RELATIVE TO x: the
    normalisation N is the norm of the approximated tensor itself (the minuend), not of a factor of
    the decomposition (whose norm is that of the projected, i.e. already truncated, tensor)."""
    m = prog.module('tenpy/linalg/truncation.py')
    n = 0
    for q, f in sorted(m.functions.items()):
        defs = {}
        for st in ast.walk(f):
            if isinstance(st, ast.Assign) and len(st.targets) == 1 and isinstance(
                    st.targets[0], ast.Name):
                defs.setdefault(st.targets[0].id, []).append(st.value)
        for st in ast.walk(f):
            if not (isinstance(st, ast.Assign) and len(st.targets) == 1 and isinstance(
                    st.targets[0], ast.Name) and st.targets[0].id == 'eps'):
                continue
            # the expression of eps with its single-assignment temporaries (`diff = x - y`)
            exprs, todo, seen_n = [st.value], [st.value], set()
            while todo:
                e_ = todo.pop()
                for nm in names_in(e_):
                    if nm not in seen_n and len(defs.get(nm, [])) == 1 and not (
                            isinstance(defs[nm][0], ast.Call) and unparse(defs[nm][0].func) in (
                                'npc.norm', 'np.linalg.norm', 'norm')) and \
                            nm not in params(f):
                        seen_n.add(nm)
                        if any(isinstance(x, ast.BinOp) and isinstance(x.op, (ast.Sub, ast.Div))
                               for x in ast.walk(defs[nm][0])):
                            exprs.append(defs[nm][0])
                            todo.append(defs[nm][0])
            subs = [x for e_ in exprs for x in ast.walk(e_) if isinstance(x, ast.BinOp) and
                    isinstance(x.op, ast.Sub)]
            if not subs:
                continue

            def base(e):
                while isinstance(e, ast.BinOp) and isinstance(e.op, (ast.Div, ast.Mult)):
                    e = e.left
                return e.id if isinstance(e, ast.Name) else None
            minuend = base(subs[0].left)
            if minuend is None:
                continue
            divisors = {x.right.id for e_ in exprs for x in ast.walk(e_) if isinstance(
                x, ast.BinOp) and isinstance(x.op, ast.Div) and isinstance(x.right, ast.Name)}
            cand = []
            for dv in sorted(divisors):
                ds = defs.get(dv, [])
                if len(ds) == 1:
                    cand.append((dv, ds[0]))
            for x in [y for e_ in exprs for y in ast.walk(e_)]:   # `.. / npc.norm(theta)` inline
                if isinstance(x, ast.BinOp) and isinstance(x.op, ast.Div) and isinstance(
                        x.right, ast.Call):
                    cand.append((unparse(x.right)[:30], x.right))
            for dv, d0 in cand:
                if not (isinstance(d0, ast.Call) and unparse(d0.func) in (
                        'npc.norm', 'np.linalg.norm', 'norm') and d0.args):
                    continue
                of = unparse(d0.args[0])
                n += 1
                rep.instance('TRUNC-eps-reference', {'function': q, 'normalisation': dv,
                                                     'norm_of': of, 'approximated': minuend})
                if of != minuend:
                    rep.violation('TRUNC-eps-reference', m, q, 'norm-of:' + of,
                                  'eps compares `%s` with its approximation but is normalised by '
                                  'norm(%s): the reported truncation error is not relative to the '
                                  'tensor that was truncated' % (minuend, of), st.lineno)
    return n


# ------------------------------------------------------------------ TRUNC-scale: homogeneity
class _Deg:
    """abstract value of a numeric local in svd_theta / eigh_rho:
    lam = degree under theta -> lam*theta; nu = power of the norm of the kept part (new_norm);
    p = spectrum power (1 singular values, 2 eigenvalues of rho, 0 scalars)"""

    def __init__(self, lam, nu, p):
        from fractions import Fraction as F
        self.v = (F(lam), F(nu), F(p))

    def __eq__(self, o):
        return isinstance(o, _Deg) and self.v == o.v

    def __repr__(self):
        return '(scale^%s, kept-norm^%s, spectrum-power %s)' % self.v

    def comb(self, o, sign):
        return _Deg(*[a + sign * b for a, b in zip(self.v, o.v)])

    def times(self, k):
        return _Deg(*[a * k for a in self.v])


_NEUTRAL = _Deg(0, 0, 0)
_MASK = 'MASK'


def _deg_eval(e, env):
    """_Deg, _MASK or None (unknown)"""
    from fractions import Fraction as F
    if isinstance(e, ast.Constant) and isinstance(e.value, (int, float)):
        return _NEUTRAL
    if isinstance(e, ast.Name):
        return env.get(e.id)
    if isinstance(e, ast.BinOp):
        a, b = _deg_eval(e.left, env), _deg_eval(e.right, env)
        if isinstance(e.op, ast.Pow):
            if isinstance(a, _Deg) and isinstance(e.right, ast.Constant) and isinstance(
                    e.right.value, (int, float)):
                return a.times(F(e.right.value))
            return None
        if not isinstance(a, _Deg) or not isinstance(b, _Deg):
            return None
        if isinstance(e.op, ast.Mult):
            return a.comb(b, 1)
        if isinstance(e.op, ast.Div):
            return a.comb(b, -1)
        if isinstance(e.op, (ast.Add, ast.Sub)):
            return a if a == b else None
        return None
    if isinstance(e, ast.Subscript):
        a = _deg_eval(e.value, env)
        if not isinstance(a, _Deg):
            return None
        if isinstance(e.slice, ast.Name) and env.get(e.slice.id) == _MASK:
            # the kept part of x ~ arg**p has aggregated scale new_norm**p
            return _Deg(a.v[0], a.v[1] + a.v[2], a.v[2])
        return a
    if isinstance(e, ast.Call):
        fn = dotted(e.func) or ''
        if fn in ('np.sqrt', 'numpy.sqrt') and len(e.args) == 1:
            a = _deg_eval(e.args[0], env)
            return a.times(F(1, 2)) if isinstance(a, _Deg) else None
        if fn in ('np.abs', 'abs', 'np.real', 'np.asarray') and len(e.args) == 1:
            return _deg_eval(e.args[0], env)
        if fn in ('np.linalg.norm', 'npc.norm', 'np.sum') and e.args:
            a = _deg_eval(e.args[0], env)
            return _Deg(a.v[0], a.v[1], 0) if isinstance(a, _Deg) else None
    return None


def check_scale(prog, rep):
    """TRUNC-scale: dimensional analysis of svd_theta and eigh_rho. truncate() is documented for a
    normalised spectrum of singular values; the values handed back must be homogeneous in the
    input: svd_theta returns S of degree 0 (norm 1) and a renormalization of degree 1 times the
    kept norm, eigh_rho returns eigenvalues of degree 1 whose sum is the original trace."""
    m = prog.module(TR)
    specs = {
        'svd_theta': ('npc.svd', [_Deg(0, 0, 0), _Deg(1, 0, 1), _Deg(0, 0, 0)],
                      {1: ('S', _Deg(0, 0, 1)), 4: ('renormalization', _Deg(1, 1, 0))}),
        'eigh_rho': ('npc.eigh', [_Deg(1, 0, 2), _Deg(0, 0, 0)],
                     {0: ('W', _Deg(1, 0, 2))}),
    }
    n = 0
    for q, (src, outs, wants) in specs.items():
        f = m.func(q)
        env = {}
        seen_truncate = False
        for st in f.body:
            if isinstance(st, ast.If):
                # branches that only warn do not bind numeric locals used later; anything they
                # do bind becomes unknown
                for x in ast.walk(st):
                    if isinstance(x, ast.Name) and isinstance(x.ctx, ast.Store):
                        env[x.id] = None
                continue
            if isinstance(st, ast.AugAssign) and isinstance(st.target, ast.Name):
                a, b = env.get(st.target.id), _deg_eval(st.value, env)
                if isinstance(a, _Deg) and isinstance(b, _Deg) and isinstance(
                        st.op, (ast.Mult, ast.Div)):
                    env[st.target.id] = a.comb(b, 1 if isinstance(st.op, ast.Mult) else -1)
                else:
                    env[st.target.id] = None
                continue
            if isinstance(st, ast.Return):
                elts = st.value.elts if isinstance(st.value, ast.Tuple) else [st.value]
                for pos, (what, want) in wants.items():
                    got = _deg_eval(elts[pos], env) if pos < len(elts) else None
                    if got is None:
                        rep.note('TRUNC-scale: cannot evaluate the returned `%s` of %s' % (what, q))
                        continue
                    n += 1
                    rep.instance('TRUNC-scale', {'function': q, 'returned': what,
                                                 'degree': repr(got), 'expected': repr(want)})
                    if got != want:
                        rep.violation('TRUNC-scale', m, q, 'return-degree:' + what,
                                      'the returned `%s` (`%s`) scales as %r where the '
                                      'documented result scales as %r: the factors of the '
                                      'renormalization / kept norm do not cancel, the '
                                      'decomposition does not reproduce the input with the '
                                      'reported error' % (what, unparse(elts[pos]), got, want),
                                      st.lineno)
                continue
            if not isinstance(st, ast.Assign) or len(st.targets) != 1:
                continue
            t, v = st.targets[0], st.value
            if isinstance(v, ast.Call) and dotted(v.func) == src and isinstance(t, ast.Tuple):
                for e, d in zip(t.elts, outs):
                    env[e.id] = d
                continue
            if isinstance(v, ast.Call) and call_name(v) == 'truncate' and isinstance(t, ast.Tuple):
                arg = _deg_eval(v.args[0], env) if v.args else None
                if arg is not None:
                    n += 1
                    rep.instance('TRUNC-scale', {'function': q, 'truncate_argument':
                                                 unparse(v.args[0]), 'degree': repr(arg)})
                    if arg != _Deg(0, 0, 1):
                        rep.violation('TRUNC-scale', m, q, 'truncate-argument',
                                      'truncate() is given `%s`, which scales as %r; it expects '
                                      'a normalised spectrum of singular values (scale^0, '
                                      'spectrum-power 1): trunc_cut / svd_min and the reported '
                                      'error are relative to norm 1' %
                                      (unparse(v.args[0]), arg), st.lineno)
                else:
                    rep.note('TRUNC-scale: cannot evaluate the argument of truncate() in %s' % q)
                env[t.elts[0].id] = _MASK
                env[t.elts[1].id] = _Deg(0, 1, 0)
                env[t.elts[2].id] = None
                seen_truncate = True
                continue
            if isinstance(t, ast.Name):
                env[t.id] = _deg_eval(v, env)
            elif isinstance(t, ast.Subscript):
                pass        # `W[W < 1e-14] = 0`: the scale of W is unchanged
        if not seen_truncate:
            raise AnalysisError('%s: call of truncate() not found' % q)
    return n


# ------------------------------------------------------------------ TRUNC-first-cut
def _first_elem(e, f, before, positive):
    """abstract first element of the array expression e: True / False / 'zero' / '+inf' / 'data'
    / None (unknown). `positive`: names known to be > 0 at this point."""
    if isinstance(e, ast.Name):
        val = None
        for st in stmts_of(f):
            if st.lineno >= before:
                break
            if isinstance(st, ast.Assign) and len(st.targets) == 1:
                t = st.targets[0]
                if isinstance(t, ast.Name) and t.id == e.id:
                    val = _first_elem(st.value, f, st.lineno, positive)
                elif isinstance(t, ast.Subscript) and isinstance(t.value, ast.Name) and \
                        t.value.id == e.id:
                    s = t.slice
                    if isinstance(s, ast.Constant) and s.value == 0:
                        val = st.value.value if isinstance(st.value, ast.Constant) else None
                    elif isinstance(s, ast.Slice) and (s.lower is None or (
                            isinstance(s.lower, ast.Constant) and s.lower.value == 0)):
                        val = _first_elem(st.value, f, st.lineno, positive)
                    elif isinstance(s, ast.Slice):
                        pass          # X[k:] = .. with k >= 1 (or negative): element 0 untouched
                    else:
                        val = None
        return val
    if isinstance(e, ast.Compare) and len(e.ops) == 1 and isinstance(e.ops[0], (ast.GtE, ast.Gt)):
        return _ge(_first_elem(e.left, f, before, positive), e.comparators[0], positive)
    if isinstance(e, ast.Call):
        fn = dotted(e.func) or ''
        if fn in ('np.greater_equal', 'np.greater') and len(e.args) == 2:
            return _ge(_first_elem(e.args[0], f, before, positive), e.args[1], positive)
        if fn in ('np.ones', 'np.ones_like'):
            return True
        if fn in ('np.zeros', 'np.zeros_like'):
            return False
        if fn == 'np.empty':
            return None
        if fn == 'np.full' and len(e.args) >= 2 and isinstance(e.args[1], ast.Constant):
            return e.args[1].value
        if fn == 'np.diff' and e.args:
            pre = kwarg(e, 'prepend')
            if pre is None:
                return 'data'
            if unparse(pre) in ('-np.inf', '-numpy.inf', "-float('inf')"):
                return '+inf'
            if unparse(pre) == unparse(e.args[0]) + '[0]':
                return 'zero'
            return None
        if fn in ('np.concatenate', 'np.hstack') and e.args and isinstance(
                e.args[0], (ast.Tuple, ast.List)) and e.args[0].elts:
            return _first_elem(e.args[0].elts[0], f, before, positive)
        if fn == 'np.append' and e.args:
            return _first_elem(e.args[0], f, before, positive)
        if fn == 'np.insert' and len(e.args) == 3 and isinstance(e.args[1], ast.Constant) and \
                e.args[1].value == 0 and isinstance(e.args[2], ast.Constant):
            return e.args[2].value
    if isinstance(e, (ast.List, ast.Tuple)) and e.elts and isinstance(e.elts[0], ast.Constant):
        return e.elts[0].value
    if isinstance(e, ast.Subscript) and isinstance(e.value, ast.Attribute) and \
            unparse(e.value) == 'np.r_' and isinstance(e.slice, ast.Tuple) and \
            isinstance(e.slice.elts[0], ast.Constant):
        return e.slice.elts[0].value
    if isinstance(e, ast.BinOp) and isinstance(e.op, ast.Sub):
        return 'data'
    return None


def _ge(first, thr, positive):
    if first == '+inf':
        return True
    if first == 'zero':
        return False if (isinstance(thr, ast.Name) and thr.id in positive) else None
    if first == 'data':
        return 'data'
    return None


def check_first_cut(prog, rep):
    """TRUNC-first-cut: cut 0 (keep the whole spectrum) has no smaller neighbour, so the
    degeneracy constraint must always allow it: the first element of its mask is True."""
    m = prog.module(TR)
    f = m.func('truncate')
    n = 0
    for st in stmts_of(f):
        if not (isinstance(st, ast.Assign) and isinstance(st.value, ast.Call) and
                call_name(st.value) == '_combine_constraints' and len(st.value.args) == 3 and
                isinstance(st.value.args[2], ast.Constant) and
                st.value.args[2].value == 'degeneracy_tol'):
            continue
        positive = set()
        for text, pol, e in guards_of(f, st):
            if pol and isinstance(e, ast.Name):
                positive.add(e.id)        # `if deg_tol:` -> non-zero (documented as a tolerance)
        first = _first_elem(st.value.args[1], f, st.lineno, positive)
        n += 1
        rep.instance('TRUNC-first-cut', {'mask': unparse(st.value.args[1]), 'first': repr(first)})
        if first is True:
            continue
        if first is None:
            rep.note('TRUNC-first-cut: first element of the degeneracy mask not determined')
            n -= 1
            continue
        rep.violation('TRUNC-first-cut', m, 'truncate', 'first-cut:' + repr(first),
                      'the degeneracy mask allows cut 0 (keep everything) only %s: when no '
                      'other constraint forces a cut, values are discarded although chi_max, '
                      'svd_min and trunc_cut would keep them' %
                      ('never (difference with itself >= tolerance is False)' if first is False
                       else 'depending on the data'), st.lineno)
    return n


# ------------------------------------------------------------------ TRUNC-value-dropped
def pure_array_methods(prog):
    """methods of Array that return a new tensor and leave self alone: they have an in-place
    sibling `i<name>`, or return a local obtained from self.copy(..)"""
    ct = prog.classtable()
    A = ct.get('Array')
    pure = set()
    for name, f in A.methods.items():
        if name.startswith('_') or (name.startswith('i') and name[1:] in A.methods):
            continue
        rets = [r for r in ast.walk(f) if isinstance(r, ast.Return) and r.value is not None]
        if not rets or any(unparse(r.value) == 'self' for r in rets):
            continue
        copies = {st.targets[0].id for st in stmts_of(f) if isinstance(st, ast.Assign) and
                  isinstance(st.targets[0], ast.Name) and isinstance(st.value, ast.Call) and
                  unparse(st.value.func) == 'self.copy'}
        if ('i' + name) in A.methods or any(
                isinstance(r.value, ast.Name) and r.value.id in copies for r in rets):
            pure.add(name)
    return pure


def _array_locals(f):
    """locals / parameters that hold an Array: annotated so, or derived from one by copy()"""
    typed = set()
    a = f.args
    for x in a.posonlyargs + a.args + a.kwonlyargs:
        if x.annotation is not None and 'Array' in unparse(x.annotation):
            typed.add(x.arg)
    changed = True
    while changed:
        changed = False
        for st in stmts_of(f):
            if isinstance(st, ast.Assign) and len(st.targets) == 1 and isinstance(
                    st.targets[0], ast.Name) and st.targets[0].id not in typed:
                v = st.value
                if isinstance(v, ast.Call) and isinstance(v.func, ast.Attribute) and isinstance(
                        v.func.value, ast.Name) and v.func.value.id in typed:
                    typed.add(st.targets[0].id)
                    changed = True
                elif isinstance(v, ast.Call) and (dotted(v.func) or '').startswith('npc.') and \
                        dotted(v.func) in ('npc.tensordot', 'npc.outer', 'npc.zeros', 'npc.eye_like',
                                           'npc.diag', 'npc.concatenate'):
                    typed.add(st.targets[0].id)
                    changed = True
    return typed


def check_value_dropped(prog, rep):
    """TRUNC-value-dropped: a statement `X.m(..)` on a tensor X where m returns a NEW tensor (the
    in-place variant is `im`) computes a value and drops it: the step the code relies on (a gauge,
    a transposition, a projection) never happens."""
    m = prog.module(TR)
    pure = pure_array_methods(prog)
    if 'gauge_total_charge' not in pure or 'transpose' not in pure:
        raise AnalysisError('pure Array methods: gauge_total_charge / transpose not derived')
    n = 0
    for q, f in m.functions.items():
        typed = _array_locals(f)
        for st in stmts_of(f):
            if isinstance(st, ast.Assign) and isinstance(st.value, ast.Call) and isinstance(
                    st.value.func, ast.Attribute) and st.value.func.attr in pure and isinstance(
                        st.value.func.value, ast.Name) and st.value.func.value.id in typed:
                n += 1
                rep.instance('TRUNC-value-dropped', {'function': q, 'call': key_text(st)[:70],
                                                     'result': 'bound'})
            if not (isinstance(st, ast.Expr) and isinstance(st.value, ast.Call) and isinstance(
                    st.value.func, ast.Attribute) and st.value.func.attr in pure):
                continue
            recv = st.value.func.value
            if not (isinstance(recv, ast.Name) and recv.id in typed):
                continue
            n += 1
            rep.instance('TRUNC-value-dropped', {'function': q, 'call': key_text(st)[:70],
                                                 'result': 'dropped'})
            rep.violation('TRUNC-value-dropped', m, q, 'dropped:%s.%s' % (recv.id,
                                                                          st.value.func.attr),
                          '`%s`: Array.%s returns a new tensor and leaves `%s` unchanged; the '
                          'result is dropped, so the step never takes effect (use the returned '
                          'tensor or the in-place variant)' %
                          (unparse(st)[:70], st.value.func.attr, recv.id), st.lineno)
    return n


# ------------------------------------------------------------------ OPTION-default-first
# Config.get(key, default) is a setdefault: the FIRST reader of a key fixes its default for every
# later reader of the same Config. truncate() owns the defaults of the truncation options; a reader
# of the same Config elsewhere that supplies a different default silently replaces truncate()'s
# (e.g. `trunc_par.get('chi_max', None)` before truncate() switches the chi_max=100 default off).
OPTION_DEFAULT_OK = {
    # (module, function, key): reason
    ('tenpy/algorithms/disentangler.py', 'NormDisentangler.__init__', 'trunc_cut'):
        'reads its own `disent_trunc_par` sub-config (Config.subconfig copies the default it is '
        'given); None is the documented stop criterion of the chi_opt loop of this class',
}


def _get_key_default(c):
    """(key, default expression) of a `X.get(key, default, ..)` call of a Config: positional or by
    the keywords `key` / `default` of Config.get"""
    key = c.args[0] if c.args else kwarg(c, 'key')
    dflt = c.args[1] if len(c.args) > 1 else kwarg(c, 'default')
    if isinstance(key, ast.Constant) and isinstance(key.value, str):
        return key.value, dflt
    return None, None


def _truncate_defaults(prog):
    f = prog.module('tenpy/linalg/truncation.py').func('truncate')
    out = {}
    for c in ast.walk(f):
        if isinstance(c, ast.Call) and isinstance(c.func, ast.Attribute) and c.func.attr == 'get' \
                and unparse(c.func.value) == 'options':
            key, dflt = _get_key_default(c)
            if key is not None and dflt is not None:
                out[key] = unparse(dflt)
    if len(out) < 5:
        raise AnalysisError('truncate(): fewer than 5 `options.get(key, default)` reads found')
    return out


def _truncating_functions(prog):
    """bare names of functions that hand one of their parameters to truncate() (transitively)"""
    names = {'truncate'}
    funcs = []
    for m in prog.all_modules():
        for q, f in m.functions.items():
            ps = {a.arg for a in f.args.args + f.args.kwonlyargs}
            calls = []
            for c in ast.walk(f):
                if isinstance(c, ast.Call):
                    cn = (call_name(c) or '').split('.')[-1]
                    passed = {unparse(a) for a in c.args} | {unparse(k.value) for k in c.keywords}
                    if passed & ps:
                        calls.append(cn)
            funcs.append((q.split('.')[-1], calls))
    changed = True
    while changed:
        changed = False
        for nm, calls in funcs:
            if nm not in names and any(c in names for c in calls):
                names.add(nm)
                changed = True
    return names


def check_option_defaults(prog, rep):
    from ..cfg import CFG
    defaults = _truncate_defaults(prog)
    trunc_fns = _truncating_functions(prog)
    n = 0
    for m in prog.all_modules():
        if not m.relpath.startswith('tenpy/'):
            continue
        for q, f in m.functions.items():
            if m.relpath == 'tenpy/linalg/truncation.py' and q == 'truncate':
                continue
            sites = []
            for st in stmts_of(f):
                if isinstance(st, (ast.If, ast.For, ast.While, ast.Try, ast.With)):
                    continue
                for c in ast.walk(st):
                    if isinstance(c, ast.Call) and isinstance(c.func, ast.Attribute) and \
                            c.func.attr == 'get' and _get_key_default(c)[0] in defaults and \
                            _get_key_default(c)[1] is not None and \
                            'trunc_par' in unparse(c.func.value):
                        sites.append((st, c))
            if not sites:
                continue
            cfg = None
            for st, c in sites:
                key, dexpr = _get_key_default(c)
                recv = unparse(c.func.value)
                d = unparse(dexpr)
                n += 1
                if d == defaults[key]:
                    rep.instance('OPTION-default-first', {'function': q, 'module': m.relpath,
                                                          'key': key, 'default': d, 'how': 'agrees'})
                    continue
                how = None
                if (m.relpath, q, key) in OPTION_DEFAULT_OK:
                    how = 'table: ' + OPTION_DEFAULT_OK[(m.relpath, q, key)]
                if how is None:
                    cfg = cfg or CFG(f)

                    def truncated_before(nd, recv=recv):
                        if nd.stmt is None or isinstance(nd.stmt, (ast.If, ast.For, ast.While,
                                                                  ast.Try, ast.With)):
                            return False
                        for cc in ast.walk(nd.stmt):
                            if isinstance(cc, ast.Call) and (call_name(cc) or '').split('.')[-1] \
                                    in trunc_fns and recv in (
                                        {unparse(a) for a in cc.args}
                                        | {unparse(k.value) for k in cc.keywords}):
                                return True
                        return False
                    if not truncated_before(cfg.nodes_of(st)[0]) and \
                            cfg.dominators_like_before(st, truncated_before):
                        how = 'read after truncate() fixed its own default'
                if how is None and isinstance(st, ast.Assign) and len(st.targets) == 1 and \
                        isinstance(st.targets[0], ast.Name) and st.value is c:
                    # the supplied default is handled at once: the branch `<v> is <default>` stores
                    # an explicit value under the key or raises
                    v = st.targets[0].id
                    for s2 in stmts_of(f):
                        if isinstance(s2, ast.If) and s2.lineno > st.lineno and \
                                unparse(s2.test) in ('%s is %s' % (v, d), '%s == %s' % (v, d)):
                            for b in s2.body:
                                if isinstance(b, ast.Raise):
                                    how = 'default value raises'
                                for t in getattr(b, 'targets', []):
                                    if unparse(t) in ("%s['%s']" % (recv, key), ):
                                        how = 'default value replaced by an explicit store'
                            break
                rep.instance('OPTION-default-first', {'function': q, 'module': m.relpath,
                                                      'key': key, 'default': d,
                                                      'truncate_default': defaults[key],
                                                      'how': how})
                if how is None:
                    rep.violation('OPTION-default-first', m, q, 'default:%s=%s' % (key, d),
                                  '`%s` supplies the default %s for the truncation option %r, but '
                                  'Config.get stores a missing default: truncate() called later '
                                  'with the same parameters finds %s instead of its own default %s'
                                  % (key_text(c)[:60], d, key, d, defaults[key]), c.lineno)
    return n


# ------------------------------------------------------------------ TRUNC-norm-version
def check_norm_version(prog, rep):
    """TRUNC-norm-version: `R = np.sum(X)` / `np.linalg.norm(X)` followed by `X = X / R` normalises
    X only if X is not modified in between. An in-place clamp (`X[X < eps] = 0`) between the two
    removes weight that R still contains: the normalised spectrum no longer sums to one, and the
    removed weight is neither kept nor reported (eigh_rho on a density matrix of small scale)."""
    m = prog.module('tenpy/linalg/truncation.py')
    n = 0
    for q in ('eigh_rho', 'svd_theta', '_eig_based_svd'):
        if q not in m.functions:
            continue
        f = m.func(q)
        sts = list(stmts_of(f))
        for st in sts:
            if not (isinstance(st, ast.Assign) and len(st.targets) == 1 and isinstance(
                    st.targets[0], ast.Name) and isinstance(st.value, ast.Call) and
                    unparse(st.value.func) in ('np.sum', 'np.linalg.norm') and st.value.args and
                    isinstance(st.value.args[0], ast.Name)):
                continue
            R, X = st.targets[0].id, st.value.args[0].id
            div = [d for d in sts if isinstance(d, ast.Assign) and d.lineno > st.lineno and
                   isinstance(d.value, ast.BinOp) and isinstance(d.value.op, ast.Div) and
                   unparse(d.value.left) == X and unparse(d.value.right) == R]
            if not div:
                continue
            n += 1
            d = div[0]
            between = [s for s in sts if st.lineno < s.lineno < d.lineno and isinstance(
                s, (ast.Assign, ast.AugAssign)) and any(
                    isinstance(t, ast.Subscript) and unparse(t.value) == X
                    for t in (s.targets if isinstance(s, ast.Assign) else [s.target]))]
            rep.instance('TRUNC-norm-version', {'function': q, 'norm': key_text(st)[:50],
                                                'normalisation': key_text(d)[:50],
                                                'modified_in_between': bool(between)})
            for s in between:
                rep.violation('TRUNC-norm-version', m, q, 'modified-between:' + X,
                              '`%s` changes %s in place between `%s` and `%s`: the norm still '
                              'contains the removed weight, the normalised values do not sum to '
                              'one and the difference is not reported as truncation error'
                              % (key_text(s)[:40], X, key_text(st)[:40], key_text(d)[:40]), s.lineno)
    return n
