"""C03 — operations never corrupt operands or shared charge data: ownership analysis of every
in-place write site (R-OWN). Observational equality of values is not needed: no write, no change."""
import ast
import re

from ..core import (AnalysisError, assigned_targets, phase_helpers, split_assign, body_nodes, call_name, dotted, is_self_attr, key_text, kwarg,
                    params, parent, stmts_of, unparse)
from ..pattern import find, pmatch
from ..own import BENIGN_INPLACE, OWN_LISTS, FuncInfo, Own, join

NPC = 'tenpy/linalg/np_conserved.py'
CH = 'tenpy/linalg/charges.py'
SPARSE = 'tenpy/linalg/sparse.py'
TRUNC = 'tenpy/linalg/truncation.py'
KRY = 'tenpy/linalg/krylov_based.py'
MPS = 'tenpy/networks/mps.py'
MPO = 'tenpy/networks/mpo.py'

# the compiled twins of these write INTO the blocks (BLAS in place); the receiver must own them
BLOCK_WRITERS = {'iadd_prefactor_other', 'iscale_prefactor', '__iadd__', '__isub__', '__imul__',
                 '__itruediv__', '__setitem__'}
SELF_WRITERS_EXTRA = {'__init__', '__setstate__', 'from_hdf5', '_set_shape', '_set_charges',
                      '_set_slices', '_set_block_sizes', '_init_from_legs', '_perm_qind',
                      '_imake_contiguous', '__setitem__', '__iadd__', '__isub__', '__imul__',
                      '__itruediv__', '_advanced_setitem_npc', 'get_block', 'test_sanity'}
# documented exceptions (one reason each)
ACCEPTED = {
    (NPC, 'Array.ibinary_blockwise', 'other'): '`other.isort_qdata()` only re-orders storage',
    # output parameters of private workers (callers must pass fresh objects: OWN-callee)
    (NPC, '_combine_legs_worker', 'res'): 'output parameter, filled by the worker',
    (CH, '_sliced_copy', 'dest'): 'output parameter (destination block)',
    (SPARSE, 'FlatLinearOperator._npc_matvec_wrapper', 'vec'): 'private wrapper; `vec` is the '
    'array flat_to_npc just built',
    # arguments that are not tensor operands
    (NPC, 'Array._combine_legs_new_axes', 'new_axes'): 'axis list argument (negative entries '
    'normalised in the list), not a tensor operand',
    (NPC, 'grid_concat', 'grid'): 'container argument: None entries are replaced by zero tensors '
    'in an object array; no tensor is modified',
}
VALUE_CLASSES = {'Array', 'LegCharge', 'LegPipe', 'ChargeInfo', 'DipolarChargeInfo'}
ACCEPTED_CALLEE_PARAMS = {(k[1].rsplit('.', 1)[-1], k[2]) for k in ACCEPTED}
NON_OPERAND_PARAMS = {'h5gr', 'hdf5_saver', 'hdf5_loader', 'kwargs', 'options', 'func_kwargs',
                      'results', 'memo'}


def inplace_names(prog):
    m = prog.module(NPC)
    cls = m.cls('Array')
    names = set()
    for f in cls.body:
        if isinstance(f, ast.FunctionDef) and re.match(r'^i[a-z]', f.name) and \
                not f.name.startswith('is_') and f.name != 'items':
            names.add(f.name)
    names |= {'_imake_contiguous', '__setitem__', '__iadd__', '__isub__', '__imul__',
              '__itruediv__', '_set_charges', '_set_slices', '_set_block_sizes',
              '_perm_qind'}
    if len(names) < 15:
        raise AnalysisError('in-place method set of Array shrank to %d' % len(names))
    return names


def return_summaries(prog, own, modules):
    """name -> origin of what the function returns (self and parameters are operands)"""
    ret = {}
    for _ in range(3):  # small fixpoint
        new = {}
        for rel in modules:
            m = prog.module(rel)
            for q, f in m.functions.items():
                if '.' in q and q.count('.') > 1:
                    continue
                fi = FuncInfo(f, q, False)
                o = None
                for r in body_nodes(f):
                    if isinstance(r, ast.Return) and r.value is not None:
                        v = r.value
                        if isinstance(v, ast.Tuple):
                            oo = 'F'
                            for e in v.elts:
                                oo = join(oo, own.origin(fi, e))
                        else:
                            oo = own.origin(fi, v)
                        o = oo if o is None else join(o, oo)
                if o is None:
                    continue
                name = f.name
                new[name] = join(new[name], o) if name in new else o
        # constructors & in-place names are handled before the table is consulted
        own.ret = new
        if new == ret:
            break
        ret = new
    return ret


def deep_write_summary(own, fi):
    """attributes of `self` that an in-place method writes in place (not merely re-binds)"""
    out = set()
    alias_env = None
    for st, kind, root, attr, desc in own.write_sites(fi):
        if kind == 'deep' and attr is None and isinstance(root, ast.Name) and root.id != 'self':
            # element store through a local: does a plain alias `x = self.attr` reach it?
            if alias_env is None:
                from ..flow import reaching_defs
                cfg_, rd_ = reaching_defs(fi.func, by_line=True)
                keyed = {(key_text(s2), s2.lineno): s2 for s2 in stmts_of(fi.func)}
                alias_env = (cfg_, rd_, keyed)
            cfg_, rd_, keyed = alias_env
            for nd in cfg_.nodes_of(st):
                for k_ in rd_.get(nd.id, {}).get(root.id, ()):
                    d = keyed.get(k_)
                    if isinstance(d, ast.Assign) and len(d.targets) == 1 and isinstance(
                            d.targets[0], ast.Name) and is_self_attr(d.value):
                        out.add(d.value.attr)
            continue
        if not (isinstance(root, ast.Name) and root.id == 'self'):
            continue
        if kind == 'deep' and attr is not None:
            if not own.fresh_rebound_before(fi, st, root, attr):
                out.add(attr)
        elif kind == 'icall':
            out.add('@' + attr)
    return out


def analyse_module(prog, rep, rel, own, inplace, deep, writes_params, tier):
    m = prog.module(rel)
    rep.unit(m)
    n = 0
    # private helpers that only run as part of in-place methods / constructors write `self` too
    derived = phase_helpers(m, set(inplace) | SELF_WRITERS_EXTRA)
    rep.extra.setdefault('derived_self_writers', {})[rel] = sorted(derived)
    for q, f in m.functions.items():
        if q.count('.') > 1:
            continue
        pm = params(f)
        cls_name = q.split('.')[0] if '.' in q else None
        if cls_name is None and f.name in inplace:
            continue  # module-level helper declared in-place by its name
        private = f.name.startswith('_') and not f.name.startswith('__')
        self_writable = f.name in inplace or f.name in SELF_WRITERS_EXTRA or 'inplace' in pm or \
            (cls_name is not None and cls_name not in VALUE_CLASSES) or f.name in derived
        fi = FuncInfo(f, q, self_writable)
        for st, kind, root, attr, desc in own.write_sites(fi):
            o = own.origin_at(fi, st, root)
            rootname = unparse(root)
            n += 1
            rep.instance('OWN-write', {'function': q, 'site': desc, 'kind': kind,
                                       'root': rootname, 'origin': o},
                         nontrivial=o in ('P', 'S'))
            if o in ('F', 'U'):
                continue
            base = root
            while isinstance(base, (ast.Attribute, ast.Subscript)):
                base = base.value
            bname = base.id if isinstance(base, ast.Name) else '?'
            if (rel, q, bname) in ACCEPTED and ACCEPTED[(rel, q, bname)]:
                continue
            if bname in NON_OPERAND_PARAMS:
                continue
            # a local that only names (part of) such a parameter: `attrs = h5gr.attrs`
            dvals = fi.defs.get(bname, []) if bname not in fi.params else []
            if dvals:
                def _base(e):
                    while isinstance(e, (ast.Attribute, ast.Subscript)):
                        e = e.value
                    return e.id if isinstance(e, ast.Name) else None
                if all(_base(v) in NON_OPERAND_PARAMS for v in dvals):
                    continue
            if private and bname in fi.params and bname not in ('self', 'cls') and \
                    f.name in writes_params and bname in writes_params[f.name][0]:
                # output parameter of a private helper: decided at its call sites (OWN-callee)
                continue
            why = None
            if kind == 'rebind':
                if o == 'P':
                    why = 'assigns attribute `.%s` of an object that may be an operand' % attr
            elif kind == 'deep':
                if attr is None:
                    if o == 'P' and not own.name_rebound_fresh_before(fi, st, bname):
                        why = 'writes into `%s`, which may be (a view of) an operand' % rootname
                    elif o == 'S':
                        why = None
                elif o == 'P':
                    why = 'writes in place through `%s.%s` of an object that may be an operand' % (
                        rootname, attr)
                elif o == 'S' and attr not in OWN_LISTS and \
                        not own.fresh_rebound_before(fi, st, root, attr):
                    why = ('writes in place through `%s.%s`, which a shallow copy shares with '
                           'the operand (no fresh re-binding of .%s precedes on every path)' % (
                               rootname, attr, attr))
            elif kind == 'icall':
                meth = attr
                if o == 'P':
                    why = 'calls the in-place method `%s` on an object that may be an operand' % meth
                elif o == 'S':
                    dw = _closure(deep, meth)
                    bad = sorted(a for a in dw if a not in OWN_LISTS and
                                 not own.fresh_rebound_before(fi, st, root, a))
                    if meth in BLOCK_WRITERS:
                        bad.append('blocks of _data')
                    if bad:
                        why = ('calls `%s` on a shallow copy; it writes %s in place, which the '
                               'shallow copy shares with the operand' % (meth, ', '.join(bad)))
            if why:
                rep.violation('OWN-write', m, q, 'own:%s:%s' % (kind, desc[:50]),
                              '%s is not an in-place operation on `%s`, but `%s` %s: the caller\'s '
                              'tensor / leg / array changes behind its back' %
                              (q, bname, key_text(st)[:80], why), st.lineno)
        # calls of module-level workers that write their parameters
        for c in body_nodes(f):
            cname = None
            if isinstance(c, ast.Call) and isinstance(c.func, ast.Name):
                cname = c.func.id
            elif isinstance(c, ast.Call) and isinstance(c.func, ast.Attribute) and \
                    c.func.attr.startswith('_') and not c.func.attr.startswith('__'):
                cname = c.func.attr
            if cname in writes_params and cname != f.name:
                wp, pnames = writes_params[cname]
                if isinstance(c.func, ast.Attribute) and pnames and pnames[0] in ('self', 'cls'):
                    pnames = pnames[1:]
                for i, a in enumerate(c.args):
                    if i < len(pnames) and pnames[i] in wp and \
                            pnames[i] not in NON_OPERAND_PARAMS and \
                            (cname, pnames[i]) not in ACCEPTED_CALLEE_PARAMS:
                        o = own.origin(fi, a)
                        rep.instance('OWN-callee', {'function': q, 'call': unparse(c)[:60],
                                                    'arg': unparse(a), 'origin': o},
                                     nontrivial=o in ('P', 'S'))
                        if o == 'P' and not (isinstance(a, ast.Name) and a.id == 'self' and
                                             self_writable):
                            rep.violation('OWN-callee', m, q,
                                          'own-callee:%s:%s' % (cname, pnames[i]),
                                          '`%s` passes `%s` (may be an operand) to %s, which '
                                          'writes its parameter `%s`' %
                                          (unparse(c)[:70], unparse(a), cname, pnames[i]),
                                          c.lineno)
    return n


def _closure(deep, meth, seen=None):
    seen = seen or set()
    if meth in seen:
        return set()
    seen.add(meth)
    out = set()
    for a in deep.get(meth, ()):
        if a.startswith('@'):
            out |= _closure(deep, a[1:], seen)
        else:
            out.add(a)
    return out


def check_inplace_flag(prog, rep):
    """functions with an `inplace` parameter alias `self` only on the inplace branch"""
    for rel in (NPC, CH, MPS, MPO):
        m = prog.module(rel)
        for q, f in m.functions.items():
            if 'inplace' not in params(f) or params(f)[:1] != ['self']:
                continue
            for st in stmts_of(f):
                alias = isinstance(st, ast.Assign) and isinstance(st.value, ast.Name) and \
                    st.value.id == 'self' and isinstance(st.targets[0], ast.Name)
                direct = isinstance(st, (ast.Assign, ast.AugAssign)) and any(
                    is_self_attr(t) or (isinstance(t, ast.Subscript) and is_self_attr(t.value))
                    for t in (st.targets if isinstance(st, ast.Assign) else [st.target]))
                if not (alias or direct):
                    continue
                rep.instance('OWN-inplace-flag', {'function': q, 'stmt': key_text(st)})
                ok = False
                p, child = parent(st), st
                while p is not None and p is not f:
                    if isinstance(p, ast.If):
                        t = unparse(p.test)
                        if t == 'inplace' and child in p.body:
                            ok = True
                        if t == 'not inplace' and child in p.orelse:
                            ok = True
                    child, p = p, parent(p)
                if not ok:
                    rep.violation('OWN-inplace-flag', m, q, 'self-aliased-without-inplace',
                                  '`%s` is not guarded by `if inplace:`: with inplace=False the '
                                  'function still modifies the object it was called on' %
                                  key_text(st), st.lineno)


def check_leg_immutability(prog, rep):
    """no in-place write through X.charges / X.slices anywhere in the package"""
    n = 0
    for m in prog.all_modules():
        for q, f in m.functions.items():
            for st in stmts_of(f):
                targets = []
                if isinstance(st, ast.Assign):
                    targets = st.targets
                elif isinstance(st, ast.AugAssign):
                    targets = [st.target]
                for t in targets:
                    for e in (t.elts if isinstance(t, ast.Tuple) else [t]):
                        base = e
                        sub = False
                        while isinstance(base, ast.Subscript):
                            base = base.value
                            sub = True
                        if isinstance(base, ast.Attribute) and base.attr in ('charges', 'slices') \
                                and (sub or isinstance(st, ast.AugAssign)):
                            n += 1
                            rep.instance('OWN-legs', {'function': q, 'store': key_text(st)})
                            rep.violation('OWN-legs', m, q, 'leg-array-write:' + key_text(st)[:40],
                                          '`%s` writes into the charges/slices array of a leg in '
                                          'place; legs are shared between tensors, sites and '
                                          'networks and must never be mutated' % key_text(st),
                                          st.lineno)
    rep.instance('OWN-legs', {'scanned': 'all modules', 'in_place_stores': n}, nontrivial=False)


def check_make_valid_contract(prog, rep):
    """make_valid returns a copy (documented; callers hand it leg.charges)"""
    m = prog.module(CH)
    f = m.func('ChargeInfo.make_valid')
    pm = params(f)[1]
    rep.instance('OWN-make_valid', {'function': 'ChargeInfo.make_valid'})
    own = Own(m, set())
    fi = FuncInfo(f, 'ChargeInfo.make_valid', False)
    for st, kind, root, attr, desc in own.write_sites(fi):
        if kind == 'deep' and attr is None and isinstance(root, ast.Name) and root.id == pm:
            if not own.name_rebound_fresh_before(fi, st, pm):
                rep.violation('OWN-make_valid', m, 'ChargeInfo.make_valid', 'writes-argument',
                              '`%s` writes into the argument (np.asarray returns the same array '
                              'for int64 input): callers pass leg.charges / qtotal of shared '
                              'objects, e.g. LegCharge.from_change_charge corrupts the charges of '
                              'the operand leg when the pure-Python implementation is active' %
                              key_text(st), st.lineno)


BORROW_ATTRS = ('_B', '_W', '_S')
BORROW_GETTERS = ('get_B', 'get_W', 'get_theta_borrowed')
# accepted in-place calls on stored tensors: (function, text) -> reason
BORROW_OK = {
    'itranspose': 'stored tensors are kept in the label order self._B_labels: identity '
                  'permutation (MPS.test_sanity checks it)',
    'test_sanity': 'no write',
}


def check_borrowed(prog, rep):
    """tensors stored inside an MPS/MPO (self._B[i], get_B(..) without copy) must not be the
    receiver of an in-place operation / passed with inplace=True before being copied"""
    from ..cfg import CFG
    inplace = inplace_names(prog)
    for rel in (MPS, MPO):
        m = prog.module(rel)
        rep.unit(m)
        for q, f in m.functions.items():
            if q.count('.') != 1:
                continue
            borrowed = {}
            blists = {}

            def borrow_src(v):
                """text of the stored tensor the expression may evaluate to (None: fresh)"""
                if isinstance(v, ast.Subscript) and is_self_attr(v.value) and \
                        v.value.attr in BORROW_ATTRS:
                    return unparse(v)
                if isinstance(v, ast.Subscript) and isinstance(v.value, ast.Name) and \
                        v.value.id in blists:
                    return '%s (element of %s)' % (blists[v.value.id], v.value.id)
                if isinstance(v, ast.Name) and v.id in borrowed:
                    return borrowed[v.id][1]
                if isinstance(v, ast.Call) and is_self_attr(v.func) and \
                        v.func.attr in ('get_B', 'get_W'):
                    cp = kwarg(v, 'copy')
                    if cp is None and v.func.attr == 'get_B' and len(v.args) > 2:
                        cp = v.args[2]
                    if cp is None or (isinstance(cp, ast.Constant) and cp.value is False):
                        # a form conversion creates a new tensor: only form=None borrows
                        fm = kwarg(v, 'form')
                        if fm is None and len(v.args) > 1:
                            fm = v.args[1]
                        if v.func.attr == 'get_W' or (
                                fm is not None and isinstance(fm, ast.Constant) and
                                fm.value is None):
                            return unparse(v)
                    return None
                # methods that return (a view of / the same) tensor
                if isinstance(v, ast.Call) and isinstance(v.func, ast.Attribute):
                    inner = borrow_src(v.func.value)
                    if inner is None:
                        return None
                    if v.func.attr in inplace:
                        return inner            # in-place methods return self
                    if v.func.attr == 'astype':
                        cp = kwarg(v, 'copy')
                        if cp is None and len(v.args) > 1:
                            cp = v.args[1]
                        if cp is not None and not (isinstance(cp, ast.Constant) and
                                                   cp.value is True):
                            return inner + ' via astype(copy=%s)' % unparse(cp)
                return None

            for st in stmts_of(f):
                # the boundary matrices of a segment MPS are stored tensors of that MPS
                if isinstance(st, ast.Assign) and len(st.targets) == 1 and isinstance(
                        st.targets[0], ast.Tuple) and isinstance(st.value, ast.Attribute) and \
                        st.value.attr == 'segment_boundaries':
                    for e in st.targets[0].elts:
                        if isinstance(e, ast.Name):
                            borrowed[e.id] = (st, unparse(st.value))
                if isinstance(st, ast.Assign) and len(st.targets) == 1 and isinstance(
                        st.targets[0], ast.Name):
                    v = st.value
                    if isinstance(v, ast.ListComp):
                        src = borrow_src(v.elt)
                        if src:
                            blists[st.targets[0].id] = src
                        continue
                    src = borrow_src(v)
                    if src:
                        borrowed[st.targets[0].id] = (st, src)
            if not borrowed:
                continue
            cfg = None
            for c in body_nodes(f):
                hit = None
                how = None
                ip = None
                if isinstance(c, (ast.Assign, ast.AugAssign)):
                    tgts = c.targets if isinstance(c, ast.Assign) else [c.target]
                    for t in tgts:
                        if isinstance(t, ast.Subscript) and isinstance(t.value, ast.Name) and \
                                t.value.id in borrowed:
                            hit, how = t.value.id, 'the element store `%s`' % key_text(c)[:50]
                        if isinstance(c, ast.AugAssign) and isinstance(t, ast.Name) and \
                                t.id in borrowed:
                            hit, how = t.id, 'the augmented assignment `%s`' % key_text(c)[:50]
                if not isinstance(c, ast.Call) and hit is None:
                    continue
                if isinstance(c, ast.Call) and isinstance(c.func, ast.Attribute) and \
                        isinstance(c.func.value, ast.Name) and \
                        c.func.value.id in borrowed and c.func.attr in inplace and \
                        c.func.attr not in BORROW_OK and c.func.attr not in BENIGN_INPLACE:
                    hit, how = c.func.value.id, 'in-place method `%s`' % c.func.attr
                if isinstance(c, ast.Call):
                    ip = kwarg(c, 'inplace')
                if ip is not None and not (isinstance(ip, ast.Constant) and ip.value is False):
                    for a in c.args:
                        if isinstance(a, ast.Name) and a.id in borrowed:
                            hit, how = a.id, '`%s` with inplace=%s' % (call_name(c), unparse(ip))
                if hit is None:
                    continue
                st0, src = borrowed[hit]
                stc = c
                while not isinstance(stc, ast.stmt):
                    stc = parent(stc)
                if stc.lineno <= st0.lineno:
                    continue
                rep.instance('OWN-borrowed', {'function': q, 'tensor': hit, 'from': src,
                                              'op': unparse(c)[:60]})
                if cfg is None:
                    cfg = CFG(f)
                # a copy re-binding between borrow and use (unconditional, or under the very
                # flag that switches the in-place behaviour on)
                guardvar = unparse(ip) if ip is not None and isinstance(ip, ast.Name) else None

                def is_copy(n, hit=hit, guardvar=guardvar):
                    s = n.stmt
                    if isinstance(s, ast.Assign) and unparse(s.targets[0]) == hit and \
                            isinstance(s.value, ast.Call) and s.lineno > st0.lineno:
                        cn = call_name(s.value)
                        recv_inplace = cn in inplace  # X = X.itranspose(..) keeps the object
                        reborrow = cn in ('get_B', 'get_W') or cn == 'shift_Array_unit_cells'
                        if not recv_inplace and not reborrow:
                            return True  # re-bound to the result of a non-in-place operation
                    if guardvar and isinstance(s, ast.If) and unparse(s.test) == guardvar and \
                            s.lineno > st0.lineno:
                        return any(isinstance(b, ast.Assign) and unparse(b.targets[0]) == hit and
                                   isinstance(b.value, ast.Call) and call_name(b.value) == 'copy'
                                   for b in s.body)
                    return False
                if not cfg.dominators_like_before(stc, is_copy):
                    rep.violation('OWN-borrowed', m, q, 'borrowed-inplace:%s:%s' % (hit, how[:30]),
                                  '`%s` is the tensor stored in the network (`%s`); %s modifies it '
                                  'in place before any copy is made: the state/operator changes '
                                  'behind the back of every other reference' %
                                  (hit, src, how), c.lineno)


# public network-level functions whose in-place Array call on a parameter is confirmed harmless
PARAM_ICALL_OK = {
    (MPS, 'BaseMPSExpectationValue.apply_JW_string_left_of_virt_leg', 'theta'):
        'in-place by contract: returns None, the signs are applied to the tensor handed in',
    (MPO, 'MPO.__add__', 'other'):
        'itranspose to the canonical order wL,wR,p,p* in which every MPO keeps its W (identity '
        'permutation; MPO.__init__ and test_sanity establish the order)',
}


def check_param_icall(prog, rep, inplace):
    """mps.py / mpo.py: a public function does not call an in-place Array method on a tensor it was
    handed as a parameter. Private helpers (leading underscore) work on intermediates of their
    caller and `matvec`/`_project` follow the linear-operator protocol (the operator may choose
    the leg order of the vector it is given; values and labels stay): both are out of scope."""
    n = 0
    for rel in (MPS, MPO, 'tenpy/algorithms/exact_diag.py', 'tenpy/networks/uniform_mps.py',
                'tenpy/networks/purification_mps.py'):
        m = prog.module(rel)
        own = Own(m, inplace)
        for q, f in m.functions.items():
            if q.count('.') > 1 or (f.name.startswith('_') and not f.name.startswith('__')) or \
                    f.name == 'matvec':
                continue
            fi = FuncInfo(f, q, True)
            for st, kind, root, attr, desc in own.write_sites(fi):
                if kind != 'icall':
                    continue
                base = root
                while isinstance(base, (ast.Attribute, ast.Subscript)):
                    base = base.value
                if not isinstance(base, ast.Name) or base.id in ('self', 'cls') or \
                        base.id not in fi.params:
                    continue
                if own.origin_at(fi, st, root) != 'P':
                    continue
                n += 1
                acc = PARAM_ICALL_OK.get((rel, q, base.id))
                rep.instance('OWN-param-icall', {'function': q, 'site': desc, 'accepted': acc})
                if acc:
                    continue
                rep.violation('OWN-param-icall', m, q, 'param-icall:%s:%s' % (base.id, attr),
                              '%s is not an in-place operation on `%s`, but `%s` calls the in-place '
                              'method `%s` on it while it may still be the caller\'s tensor: the '
                              'caller sees its legs / labels / values change' %
                              (q, base.id, key_text(st)[:80], attr), st.lineno)
    return n


def check_attr_alias_writes(prog, rep, modules):
    """`self.A = p` stores a reference to the parameter p; a later store through it
    (`self.A.x = ..`, `self.A[k] = ..`, in-place method) in the same function changes the caller's
    object unless `self.A` was re-bound to something else on every path before."""
    from ..cfg import CFG
    inplace = inplace_names(prog)
    n = 0
    for rel in modules:
        m = prog.module(rel)
        for q, f in m.functions.items():
            if q.count('.') != 1:
                continue
            pm = set(params(f)) - {'self', 'cls'}
            alias = {}
            for st in stmts_of(f):
                for t, v in split_assign(st):
                    if is_self_attr(t) and isinstance(v, ast.Name) and v.id in pm:
                        alias[t.attr] = (v.id, st)
            if not alias:
                continue
            cfg = None
            for st in stmts_of(f):
                hits = []
                for t in assigned_targets(st):
                    b = t
                    while isinstance(b, (ast.Attribute, ast.Subscript)):
                        if isinstance(b.value, ast.Attribute) and is_self_attr(b.value) and \
                                b.value.attr in alias and b is not t or (
                                    isinstance(b.value, ast.Attribute) and is_self_attr(b.value)
                                    and b.value.attr in alias):
                            hits.append((b.value.attr, unparse(t)))
                            break
                        b = b.value
                if isinstance(st, ast.Expr) and isinstance(st.value, ast.Call) and \
                        isinstance(st.value.func, ast.Attribute) and \
                        st.value.func.attr in inplace and is_self_attr(st.value.func.value) and \
                        st.value.func.value.attr in alias:
                    hits.append((st.value.func.value.attr, unparse(st.value)[:50]))
                for attr, what in hits:
                    p_, st0 = alias[attr]
                    if st.lineno <= st0.lineno:
                        continue
                    n += 1
                    cfg = cfg or CFG(f)

                    def rebound(nd, attr=attr, p_=p_, st0=st0):
                        s2 = nd.stmt
                        if s2 is None or s2 is st0:
                            return False
                        return any(is_self_attr(t2, attr) and not (
                            isinstance(v2, ast.Name) and v2.id == p_) and
                            not isinstance(t2, ast.Subscript) for t2, v2 in split_assign(s2))
                    ok = cfg.dominators_like_before(st, rebound)
                    rep.instance('OWN-attr-alias', {'function': q, 'attr': attr, 'param': p_,
                                                    'write': what, 'rebound_before': ok})
                    if not ok:
                        rep.violation('OWN-attr-alias', m, q, 'alias-write:%s' % attr,
                                      '`self.%s` is the object passed in as `%s`; `%s` stores '
                                      'through it, so the caller\'s object changes (and the '
                                      'change accumulates when the object is used again)' %
                                      (attr, p_, key_text(st)[:80]), st.lineno)
    return n


def check_list_args_copied(prog, rep):
    """MPO/MPS keep per-bond bookkeeping lists (IdL, IdR, form, ...) that in-place methods update
    element-wise (sort_legcharges writes self.IdL[b]). A constructor helper that parses such an
    argument must hand back a list of its own on every path: a parameter may only be returned after
    it was re-bound to a fresh list (list(p), [..] * n, slice copy)."""
    from ..cfg import CFG
    n = 0
    for rel, qual in ((MPO, 'MPO._get_Id'), ):
        m = prog.module(rel)
        f = m.func(qual)
        pm = set(params(f)) - {'self', 'cls'}
        from ..flow import reaching_defs
        cfg, rd = reaching_defs(f, by_line=True)
        by_key = {}
        for st in stmts_of(f):
            by_key[(key_text(st), st.lineno)] = st

        def is_fresh_value(val):
            return bool(pmatch('list($$x)', val) or pmatch('$$x[:]', val) or
                        pmatch('$$x.copy()', val) or isinstance(val, (ast.List, ast.ListComp)) or
                        (isinstance(val, ast.BinOp) and isinstance(val.op, ast.Mult)) or
                        (isinstance(val, ast.Call) and call_name(val) in ('sorted', 'tuple')))

        def name_fresh_at(stmt, name, depth=0):
            """every definition of `name` reaching `stmt` binds a list of its own"""
            env = {}
            for nd in cfg.nodes_of(stmt):
                for k_, v_ in rd.get(nd.id, {}).items():
                    env.setdefault(k_, set()).update(v_)
            defs = env.get(name)
            if not defs:
                return False
            for k_ in defs:
                if k_ == '<param>':
                    return False
                d = by_key.get(k_)
                if not isinstance(d, ast.Assign):
                    return False
                val = d.value
                if is_fresh_value(val):
                    continue
                if isinstance(val, ast.Name) and depth < 3 and name_fresh_at(d, val.id, depth + 1):
                    continue
                return False
            return True
        for r in [st for st in ast.walk(f) if isinstance(st, ast.Return) and st.value is not None]:
            v = r.value
            n += 1
            fresh = not isinstance(v, ast.Name) or name_fresh_at(r, v.id)
            rep.instance('OWN-list-arg', {'function': qual, 'return': key_text(r), 'fresh': fresh})
            if not fresh:
                rep.violation('OWN-list-arg', m, qual, 'returns-argument:' + unparse(v),
                              '`%s` can hand back the caller\'s own list: the MPO then shares its '
                              'identity-index list with whoever passed it (e.g. H and H.dagger()), '
                              'and the element-wise updates of sort_legcharges() on one of them '
                              'change the other' % key_text(r), r.lineno)
    if n < 2:
        raise AnalysisError('OWN-list-arg: returns of MPO._get_Id not found')


def check_network_copies(prog, rep):
    """MPS/MPO constructors and copy() store copies of the tensors"""
    for rel, qual, attr in ((MPS, 'MPS.__init__', '_B'), (MPS, 'MPS.copy', '_B'),
                            (MPO, 'MPO.__init__', '_W'), (MPO, 'MPO.copy', '_W')):
        m = prog.module(rel)
        if not m.has_func(qual):
            continue
        f = m.func(qual)
        rep.unit(m)
        sts = [s for s in stmts_of(f) if isinstance(s, ast.Assign) and any(
            isinstance(t, ast.Attribute) and t.attr == attr for t in s.targets)]
        for s in sts:
            rep.instance('OWN-network-copy', {'function': qual, 'store': key_text(s)[:80]})
            v = s.value
            ok = False
            if isinstance(v, ast.ListComp):
                e = v.elt
                # look through chained in-place calls: B.astype(..., copy=True).itranspose(...)
                while isinstance(e, ast.Call) and isinstance(e.func, ast.Attribute) and \
                        re.match(r'^i[a-z]', e.func.attr) and isinstance(e.func.value, ast.Call):
                    e = e.func.value
                if isinstance(e, ast.Call) and isinstance(e.func, ast.Attribute):
                    if e.func.attr == 'copy':
                        ok = True
                    if e.func.attr == 'astype':
                        cp = kwarg(e, 'copy')
                        ok = cp is None or (isinstance(cp, ast.Constant) and cp.value is True)
            if isinstance(v, ast.Call) and call_name(v) in ('deepcopy', ):
                ok = True
            if not ok:
                rep.violation('OWN-network-copy', m, qual, 'tensors-not-copied:' + attr,
                              '`%s`: the network keeps references to the caller\'s tensors instead '
                              'of copies (later in-place updates of the network change them)' %
                              key_text(s)[:80], s.lineno)
        if not sts and qual.endswith('__init__'):
            raise AnalysisError('%s: store of %s not found' % (qual, attr))


def run(prog, rep, tier):
    rep.rule('OWN-write', 'every in-place write site (attribute re-binding on a non-fresh object, '
             'subscript/augmented store, mutating container call, in-place Array method) in a '
             'function that is not in-place must have a root that is Fresh, or — for shallow '
             'copies — touch only what the shallow copy owns (legs/_labels lists) or what was '
             're-bound to a fresh value on every path before')
    rep.rule('OWN-callee', 'operands are not passed to workers that write that parameter')
    rep.rule('OWN-legs', 'no in-place store through X.charges / X.slices anywhere')
    rep.rule('OWN-make_valid', 'make_valid does not write its argument')
    rep.rule('OWN-param-icall', 'public functions of mps.py / mpo.py do not call in-place Array '
             'methods on tensors received as parameters')
    rep.rule('OWN-attr-alias', 'no store through self.A while self.A still is the parameter it was '
             'assigned from (must-precede of a re-binding on the CFG)')
    rep.rule('OWN-network-copy', 'MPS/MPO constructors and copy() store copies of tensors')
    inplace = inplace_names(prog)
    modules = [NPC, CH, SPARSE, TRUNC, KRY]
    m = prog.module(NPC)
    own = Own(m, inplace)
    ret = return_summaries(prog, own, modules)
    own.ret = ret
    rep.extra['return_origin_summaries'] = {k: v for k, v in sorted(ret.items())
                                            if v in ('S', 'P')}
    # deep-write summaries of in-place methods
    deep = {}
    for rel in (NPC, CH):
        mm = prog.module(rel)
        for q, f in mm.functions.items():
            if f.name in inplace:
                fi = FuncInfo(f, q, False)
                deep[f.name] = deep.get(f.name, set()) | deep_write_summary(own, fi)
    rep.extra['inplace_deep_writes'] = {k: sorted(v) for k, v in sorted(deep.items())}
    # parameters written by module-level functions
    writes_params = {}
    for rel in (NPC, CH):
        mm = prog.module(rel)
        for q, f in mm.functions.items():
            if '.' in q and not (q.count('.') == 1 and f.name.startswith('_') and
                                 not f.name.startswith('__')):
                continue
            fi = FuncInfo(f, q, False)
            wp = set()
            for st, kind, root, attr, desc in own.write_sites(fi):
                base = root
                while isinstance(base, (ast.Attribute, ast.Subscript)):
                    base = base.value
                if isinstance(base, ast.Name) and base.id in fi.params and \
                        base.id not in NON_OPERAND_PARAMS and \
                        own.origin_at(fi, st, root) == 'P':
                    if kind == 'deep' and attr is None and own.name_rebound_fresh_before(
                            fi, st, base.id):
                        continue
                    wp.add(base.id)
            if wp:
                writes_params[f.name] = (wp, params(f))
    rep.extra['param_writers'] = {k: sorted(v[0]) for k, v in sorted(writes_params.items())}
    n = 0
    for rel in modules:
        n += analyse_module(prog, rep, rel, own, inplace, deep, writes_params, tier)
    check_leg_immutability(prog, rep)
    check_inplace_flag(prog, rep)
    check_network_copies(prog, rep)
    check_borrowed(prog, rep)
    check_attr_alias_writes(prog, rep, modules)
    check_list_args_copied(prog, rep)
    if check_param_icall(prog, rep, inplace) < 2:
        raise AnalysisError('OWN-param-icall: the confirmed instances were not found')
    rep.rule('OWN-param-mps-inplace', 'state-changing MPS methods (closure of stores into _B/_S/form/'
             'norm) are only called on copies of operand states')
    if check_param_mps_inplace(prog, rep) < 2:
        raise AnalysisError('OWN-param-mps-inplace: from_product_mps_covering not recognised')
    rep.rule('OWN-getter-copy', 'get_theta returns a get_B result only with copy=True (bound '
             'against the signature of get_B)')
    if check_getter_copy(prog, rep) < 1:
        raise AnalysisError('OWN-getter-copy: the n == 1 return of get_theta not found')
    rep.rule('OWN-benign-rebind', 'the storage re-ordering methods the analysis treats as harmless '
             '(isort_qdata, _imake_contiguous) re-bind _qdata / _data and never permute them in place')
    if check_benign_rebind(prog, rep) < 2:
        raise AnalysisError('OWN-benign-rebind: isort_qdata / _imake_contiguous not found')
    rep.rule('COPY-mixed-update', 'classes with a shallow copy(): a method never replaces one '
             'per-site list and updates a sibling list element-wise (the copy would be half updated)')
    if check_copy_mixed_update(prog, rep) < 1:
        raise AnalysisError('COPY-mixed-update: MPO.sort_legcharges not recognised')
    rep.floor('OWN-write', 150)
    rep.assumptions += ['origin U (unknown) is never flagged: the analysis may miss, not invent',
                        'numpy view/copy table in sa/own.py',
                        'compiled twins of iadd_prefactor_other/iscale_prefactor write blocks in '
                        'place (frozen fact, checked under C04)']
    return rep.finish(
        level='other',
        explanation='Ownership analysis over %d in-place write sites of np_conserved.py, '
        'charges.py, sparse.py, truncation.py, krylov_based.py with return-origin and deep-write '
        'summaries computed from the current source.' % n)


# ------------------------------------------------------------------ COPY-mixed-update
def check_copy_mixed_update(prog, rep):
    """COPY-mixed-update: a class whose copy() is `copy.copy(self)` shares its list attributes
    with every shallow copy. A method that REPLACES one of these lists (`self._W = new`) but updates
    a sibling list element-wise (`self.IdL[b] = ...`) changes the object it was called on AND half
    of every copy / the source it was copied from, which is left inconsistent (old tensors, new
    indices). Within one method the per-site list attributes are either all rebound or all updated
    in place; a list rebound earlier in the same method (`self.IdL = list(self.IdL)`) is fresh."""
    ct = prog.classtable()
    n = 0
    for ci in ct.all:
        cp = ci.methods.get('copy')
        if cp is None or not any(isinstance(r, ast.Return) and r.value is not None and
                                 unparse(r.value) == 'copy.copy(self)' for r in ast.walk(cp)):
            continue
        # list-valued attributes: bound from list displays / list(...) / comprehensions in this class
        listattrs = set()
        for f in ci.methods.values():
            for a in ast.walk(f):
                if isinstance(a, ast.Assign):
                    for t in a.targets:
                        if is_self_attr(t) and (isinstance(a.value, (ast.List, ast.ListComp)) or (
                                isinstance(a.value, ast.Call) and call_name(a.value) == 'list') or (
                                    isinstance(a.value, ast.BinOp) and isinstance(
                                        a.value.left, ast.List))):
                            listattrs.add(t.attr)
        for name, f in ci.methods.items():
            if name in ('__init__', 'copy', 'from_hdf5', '__setstate__'):
                continue
            rebound = {}
            stores = []
            for st in stmts_of(f):
                if isinstance(st, ast.Assign):
                    for t in st.targets:
                        if is_self_attr(t):
                            rebound.setdefault(t.attr, st.lineno)
                        if isinstance(t, ast.Subscript) and is_self_attr(t.value):
                            stores.append((t.value.attr, st))
            rb = {a for a in rebound if a in listattrs or a.lstrip('_') in ('W', 'B', 'S')}
            if not rb or not stores:
                continue
            n += 1
            bad = [(a, st) for a, st in stores if a not in rebound or rebound[a] > st.lineno]
            rep.instance('COPY-mixed-update', {'class': ci.name, 'method': name,
                                               'rebound': sorted(rb),
                                               'element_stores': sorted({a for a, _ in stores}),
                                               'mixed': bool(bad)})
            for a, st in bad:
                rep.violation('COPY-mixed-update', ci.module, '%s.%s' % (ci.name, name),
                              'shared-list-store:' + a,
                              '`%s` stores into the list `self.%s`, which a shallow copy() shares, '
                              'while the same method replaces `self.%s` by a new list: after '
                              '`cp = x.copy(); cp.%s()` the source x keeps its old `%s` but sees '
                              'the new entries of `%s`' % (key_text(st)[:60], a, sorted(rb)[0],
                                                           name, sorted(rb)[0], a), st.lineno)
    return n


# ------------------------------------------------------------------ OWN-benign-rebind
def check_benign_rebind(prog, rep):
    """OWN-benign-rebind: the ownership analysis treats calls of isort_qdata / _imake_contiguous on
    operands as harmless ("only re-order / re-layout storage"). That holds only if these methods
    RE-BIND `_qdata` / `_data`: both containers are shared with shallow copies, and `_qdata` alone
    also with results of unary operations (`-a`, `a.complex_conj()`), which own a different `_data`
    list. An element / slice store (`self._qdata[:] = ..`, `self._data[:] = ..`) or an in-place
    list method permutes the rows underneath such a tensor, whose blocks then no longer match."""
    m = prog.module(NPC)
    ct = prog.classtable()
    ci = ct.get('Array')
    n = 0
    for name in sorted(BENIGN_INPLACE):
        f = ci.methods.get(name)
        if f is None or name.startswith('test_'):
            continue
        n += 1
        bad = []
        for st in ast.walk(f):
            if isinstance(st, (ast.Assign, ast.AugAssign)):
                tg = st.targets if isinstance(st, ast.Assign) else [st.target]
                for t in tg:
                    if isinstance(t, ast.Subscript) and is_self_attr(t.value) and \
                            t.value.attr in ('_qdata', '_data'):
                        if t.value.attr == '_data' and not isinstance(t.slice, ast.Slice):
                            continue      # replacing one block object in the own list position
                        bad.append(st)
            if isinstance(st, ast.Call) and isinstance(st.func, ast.Attribute) and \
                    is_self_attr(st.func.value) and st.func.value.attr in ('_qdata', '_data') and \
                    st.func.attr in ('sort', 'reverse', 'append', 'insert', 'pop', 'extend',
                                     'remove', 'clear', 'resize', 'put', 'fill'):
                bad.append(st)
        rep.instance('OWN-benign-rebind', {'method': 'Array.' + name, 'rebinds_only': not bad})
        for st in bad:
            rep.violation('OWN-benign-rebind', m, 'Array.' + name, 'inplace-shared:' +
                          key_text(st)[:40],
                          '`%s` re-orders the shared storage in place; a tensor that shares '
                          '`_qdata` but owns another `_data` list (result of -a, complex_conj, a '
                          'shallow copy after its data were re-bound) keeps its blocks in the old '
                          'order against permuted index rows' % key_text(st)[:60], st.lineno)
    return n


# ------------------------------------------------------------------ OWN-getter-copy
def check_getter_copy(prog, rep):
    """OWN-getter-copy: MPS.get_B(i, form, copy=False, ..) hands out the STORED tensor (or a
    relabelled shallow copy sharing its blocks) whenever no rescaling is needed. get_theta() is the
    accessor algorithms modify in place (`theta *= ..`, `theta.iscale_prefactor(..)`); the tensor it
    returns straight from get_B therefore binds `copy=True` (positionally or by keyword, resolved
    against the signature of get_B). Contractions (`npc.tensordot`) always produce fresh blocks."""
    from ..core import bound_args
    m = prog.module('tenpy/networks/mps.py')
    ct = prog.classtable()
    ci = ct.get('MPS')
    getB = ci.methods['get_B']
    f = ci.methods['get_theta']
    n = 0
    for r in ast.walk(f):
        if not (isinstance(r, ast.Return) and isinstance(r.value, ast.Call) and
                unparse(r.value.func) == 'self.get_B'):
            continue
        n += 1
        ba = bound_args(r.value, getB)
        cp = ba.get('copy')
        ok = isinstance(cp, ast.Constant) and cp.value is True
        rep.instance('OWN-getter-copy', {'function': 'MPS.get_theta', 'return': key_text(r)[:70],
                                         'copy': unparse(cp) if cp is not None else 'default False'})
        if not ok:
            rep.violation('OWN-getter-copy', m, 'MPS.get_theta', 'returns-stored:get_B',
                          '`%s` hands the result of get_B to the caller with copy=%s: when the '
                          'stored form already is the requested one the caller receives the '
                          'blocks of psi._B[i] and an in-place operation on theta changes the '
                          'state' % (key_text(r)[:60], unparse(cp) if cp is not None else
                                     'False (default)'), r.lineno)
    return n


# ------------------------------------------------------------------ OWN-param-mps-inplace
def _mps_inplace_methods(ct):
    """names of MPS methods that change the state they are called on (transitive closure)"""
    ci = ct.get('MPS')
    direct = set()
    for name, f in ci.methods.items():
        for x in ast.walk(f):
            if isinstance(x, (ast.Assign, ast.AugAssign)):
                tg = x.targets if isinstance(x, ast.Assign) else [x.target]
                for t in tg:
                    b = t
                    while isinstance(b, ast.Subscript):
                        b = b.value
                    if is_self_attr(b) and b.attr in ('_B', '_S', 'form', 'norm', 'sites',
                                                      'segment_boundaries'):
                        direct.add(name)
    direct -= {'__init__', 'copy', '__setstate__', 'from_hdf5'}
    grown = True
    while grown:
        grown = False
        for name, f in ci.methods.items():
            if name in direct or name in ('__init__', 'copy'):
                continue
            if any(isinstance(c, ast.Call) and isinstance(c.func, ast.Attribute) and
                   unparse(c.func.value) == 'self' and c.func.attr in direct
                   for c in ast.walk(f)):
                direct.add(name)
                grown = True
    return direct


def check_param_mps_inplace(prog, rep):
    """OWN-param-mps-inplace: functions of mps.py that receive other states (a parameter, or the
    elements of a parameter they loop over) do not call state-changing MPS methods on them unless an
    unconditional re-binding to a copy (`x = x.copy()`) precedes the call in the same block. The set
    of state-changing methods is the transitive closure of MPS methods that store into
    _B / _S / form / norm."""
    ct = prog.classtable()
    inplace = _mps_inplace_methods(ct)
    if not {'convert_form', 'permute_sites', 'canonical_form'} <= inplace:
        raise AnalysisError('in-place closure of MPS lost convert_form / permute_sites')
    m = prog.module('tenpy/networks/mps.py')
    n = 0
    for q, f in m.functions.items():
        ps = set(params(f)) - {'self', 'cls'}
        if not ps:
            continue
        for lp in ast.walk(f):
            if not isinstance(lp, ast.For):
                continue
            src = {x.id for x in ast.walk(lp.iter) if isinstance(x, ast.Name)}
            if not (src & ps):
                continue
            loopvars = {x.id for x in ast.walk(lp.target) if isinstance(x, ast.Name)}
            for c in ast.walk(lp):
                if not (isinstance(c, ast.Call) and isinstance(c.func, ast.Attribute) and
                        isinstance(c.func.value, ast.Name) and c.func.value.id in loopvars and
                        c.func.attr in inplace):
                    continue
                v = c.func.value.id
                n += 1
                fresh = any(isinstance(st, ast.Assign) and any(
                    isinstance(t, ast.Name) and t.id == v for t in st.targets) and isinstance(
                        st.value, ast.Call) and isinstance(st.value.func, ast.Attribute) and
                            st.value.func.attr == 'copy' and st.lineno < c.lineno
                            for st in lp.body)            # top level of the loop body only
                rep.instance('OWN-param-mps-inplace', {'function': q, 'call': unparse(c)[:50],
                                                       'on_copy': fresh})
                if not fresh:
                    rep.violation('OWN-param-mps-inplace', m, q, 'inplace-on-operand:%s.%s'
                                  % (v, c.func.attr),
                                  '`%s` changes `%s`, an element of the parameter `%s`, in place; '
                                  'no unconditional `%s = %s.copy()` precedes it in the loop body: '
                                  'the caller\'s state is modified' %
                                  (unparse(c)[:50], v, sorted(src & ps)[0], v, v), c.lineno)
    return n
