"""C01 — block-sparse algebra agrees with dense numpy: the bookkeeping clauses that are visible
in the shape of the code: per-axis carriers re-indexed by the same index expression (R-AXIS),
documented label propagation (R-LABEL), operand-side coherence in blockwise merges (R-FAMILY).
That block values equal numpy's is arithmetic over run-time data and not decided."""
import ast
import re

from ..core import (AnalysisError, body_nodes, call_name, dotted, is_self_attr, key_text, kwarg,
                    local_defs, names_in, params, parent, stmts_of, unparse)

NPC = 'tenpy/linalg/np_conserved.py'


def _comp_index(node, defs):
    """index-set descriptor of a per-axis carrier expression, or None
    [S[a] for a in IDX] -> text(IDX) ; X[:, np.array(keep)] / X[:, keep] -> 'keep' ;
    np.ix_(rows, cols) -> cols"""
    if isinstance(node, ast.ListComp) and len(node.generators) == 1:
        g = node.generators[0]
        if isinstance(node.elt, ast.Subscript) and unparse(node.elt.slice) == unparse(g.target):
            return unparse(g.iter)
    if isinstance(node, ast.Call) and dotted(node.func) in ('np.asarray', 'np.array',
                                                            'np.ascontiguousarray') and node.args:
        return _comp_index(node.args[0], defs)
    if isinstance(node, ast.Subscript):
        sl = node.slice
        if isinstance(sl, ast.Tuple) and len(sl.elts) == 2:
            col = sl.elts[1]
            if isinstance(col, ast.Call) and dotted(col.func) == 'np.array' and col.args:
                col = col.args[0]
            if isinstance(col, ast.Name):
                # resolve `axes_arr = np.array(axes)`
                for v in defs.get(col.id, []):
                    if isinstance(v, ast.Call) and dotted(v.func) == 'np.array' and v.args and \
                            isinstance(v.args[0], ast.Name):
                        return v.args[0].id
                return col.id
        if isinstance(sl, ast.Call) and dotted(sl.func) == 'np.ix_' and len(sl.args) == 2:
            return unparse(sl.args[1])
    return None


AXIS_FUNCS = ['Array.itranspose', 'Array.take_slice', 'Array.squeeze', 'trace']


def check_axis_carriers(prog, rep):
    m = prog.module(NPC)
    rep.unit(m)
    for qn in AXIS_FUNCS:
        f = m.func(qn)
        defs = local_defs(f)
        carriers = {}
        for st in stmts_of(f):
            if isinstance(st, ast.Assign):
                for t in st.targets:
                    tt = unparse(t)
                    kind = None
                    if tt.endswith('.legs') or tt == 'legs':
                        kind = 'legs'
                    elif tt.endswith('._labels'):
                        kind = 'labels'
                    elif tt.endswith('._qdata'):
                        kind = 'qdata'
                    if kind:
                        idx = _comp_index(st.value, defs)
                        if idx is not None:
                            carriers.setdefault(kind, []).append((idx, st))
            for c in ast.walk(st):
                if isinstance(c, ast.Call) and call_name(c) == 'iset_leg_labels' and c.args:
                    idx = _comp_index(c.args[0], defs)
                    if idx is not None:
                        carriers.setdefault('labels', []).append((idx, st))
                if isinstance(c, ast.Call) and dotted(c.func) == 'Array' and c.args:
                    a0 = c.args[0]
                    if isinstance(a0, ast.Name):
                        for v in defs.get(a0.id, []):
                            idx = _comp_index(v, defs)
                            if idx is not None:
                                carriers.setdefault('legs', []).append((idx, st))
        # normalise `np.array(keep)`-style wrappers and keep_axes re-bound to arrays
        idxs = {}
        for kind, lst in carriers.items():
            for idx, st in lst:
                idxs.setdefault(kind, set()).add(re.sub(r'^np\.array\((\w+)\)$', r'\1', idx))
        rep.instance('AXIS-carriers', {'function': qn, 'carriers': {k: sorted(v)
                                                                    for k, v in idxs.items()}})
        if len(idxs) < 2:
            raise AnalysisError('%s: per-axis carriers (legs/labels/qdata) not found: %s' %
                                (qn, sorted(idxs)))
        allv = set().union(*idxs.values())
        if len(allv) != 1:
            rep.violation('AXIS-carriers', m, qn, 'carrier-index-mismatch',
                          'legs, labels and block-index columns of the result are re-indexed with '
                          'different index sets %s: labels/legs/blocks no longer describe the same '
                          'axes' % {k: sorted(v) for k, v in idxs.items()}, f.lineno)
    # transposition of the blocks uses the same axes
    f = m.func('Array.itranspose')
    rep.instance('AXIS-carriers', {'function': 'Array.itranspose', 'check': 'blocks'})
    if 'np.transpose(block, axes)' not in unparse(f):
        rep.violation('AXIS-carriers', m, 'Array.itranspose', 'blocks-axes',
                      'the blocks must be transposed with the same `axes` as legs and labels',
                      f.lineno)


def check_contraction_labels(prog, rep):
    m = prog.module(NPC)
    # tensordot / outer: legs and labels cut at the same positions
    f = m.func('tensordot')
    rep.instance('LABEL-cut', {'function': 'tensordot'})
    src = unparse(f)
    ok = 'cut_a = a.rank - axes' in src and 'a.legs[:cut_a] + b.legs[axes:]' in src and \
        '_drop_duplicate_labels(a._labels[:a.rank - axes], b._labels[axes:])' in src and \
        'c_qdata[0, :cut_a] = a._qdata[0, :cut_a]' in src and \
        'c_qdata[0, cut_a:] = b._qdata[0, axes:]' in src
    if not ok:
        rep.violation('LABEL-cut', m, 'tensordot', 'cut-positions',
                      'the result keeps the first rank(a)-axes legs of a and the last rank(b)-axes '
                      'legs of b: legs, labels and block indices must all be cut at these '
                      'positions', f.lineno)
    f = m.func('_tensordot_worker')
    rep.instance('LABEL-cut', {'function': '_tensordot_worker'})
    src = unparse(f)
    if 'a.legs[:cut_a] + b.legs[cut_b:]' not in src or 'cut_a = a.rank - axes' not in src or \
            'cut_b = axes' not in src or \
            'np.concatenate((res_qdata_a, res_qdata_b), axis=1)' not in src:
        rep.violation('LABEL-cut', m, '_tensordot_worker', 'cut-positions',
                      'result legs = a.legs[:cut_a] + b.legs[cut_b:] with block indices '
                      'concatenated in the same order', f.lineno)
    f = m.func('outer')
    rep.instance('LABEL-cut', {'function': 'outer'})
    src = unparse(f)
    if 'Array(a.legs + b.legs' not in src or '_drop_duplicate_labels(a._labels, b._labels)' not in \
            src or 'qdata_res[:, :a.rank] = qdata_a[grid[:, 0]]' not in src or \
            'qdata_res[:, a.rank:] = qdata_b[grid[:, 1]]' not in src:
        rep.violation('LABEL-cut', m, 'outer', 'order',
                      'outer(a, b): legs, labels and block-index columns are those of a followed '
                      'by those of b', f.lineno)
    # _drop_duplicate_labels: a label occurring on both sides is dropped on BOTH
    f = m.func('_drop_duplicate_labels')
    rep.instance('LABEL-helper', {'function': '_drop_duplicate_labels'})
    src = unparse(f)
    if 'a_labels[i] = None' not in src or 'b_labels[j] = None' not in src or \
            'a_labels.extend(b_labels)' not in src or 'list(a_labels)' not in src:
        rep.violation('LABEL-helper', m, '_drop_duplicate_labels', 'duplicates',
                      'duplicate labels are set to None in both operands (on copies of the lists), '
                      'result = a-labels followed by b-labels', f.lineno)
    # conj: every label conjugated
    f = m.func('Array.conj')
    rep.instance('LABEL-helper', {'function': 'Array.conj'})
    ok = any(isinstance(s, ast.For) and 'enumerate(labels)' in unparse(s.iter) and
             'self._conj_leg_label(lbl)' in unparse(s) and 'lbl is not None' in unparse(s)
             for s in ast.walk(f))
    if not ok:
        rep.violation('LABEL-helper', m, 'Array.conj', 'labels',
                      'conj must map every non-None label through _conj_leg_label', f.lineno)
    # combine_legs / split_legs label helpers
    f = m.func('Array.combine_legs')
    rep.instance('LABEL-helper', {'function': 'Array.combine_legs'})
    src = unparse(f)
    if 'self._combine_leg_labels([labels[c] for c in cl]) for cl in combine_legs' not in src or \
            'labels[na:na + p.nlegs] = [plab]' not in src:
        rep.violation('LABEL-helper', m, 'Array.combine_legs', 'pipe-labels',
                      'the label of a pipe combines the labels of exactly the legs of that pipe '
                      'and replaces them at the new axis', f.lineno)
    f = m.func('Array.split_legs')
    rep.instance('LABEL-helper', {'function': 'Array.split_legs'})
    src = unparse(f)
    if 'labels[a:a + 1] = self._split_leg_label(labels[a], self.legs[a].nlegs)' not in src or \
            'sorted(axes, reverse=True)' not in src:
        rep.violation('LABEL-helper', m, 'Array.split_legs', 'split-labels',
                      'splitting replaces the pipe label at axis a by its nlegs sub-labels, '
                      'processing axes from the back so positions stay valid', f.lineno)
    # add_leg / add_trivial_leg: insert at the same axis everywhere
    for qn in ('Array.add_leg', 'Array.add_trivial_leg'):
        f = m.func(qn)
        rep.instance('AXIS-insert', {'function': qn})
        ins = [unparse(c.args[0]) for c in body_nodes(f) if isinstance(c, ast.Call) and
               call_name(c) == 'insert' and c.args]
        if len(ins) < 2 or len(set(ins)) != 1 or ins[0] != 'axis':
            rep.violation('AXIS-insert', m, qn, 'insert-axis',
                          'the new leg and its label must be inserted at the same position `axis` '
                          '(got %s)' % ins, f.lineno)
    f = m.func('Array.add_trivial_leg')
    src = unparse(f)
    rep.instance('AXIS-insert', {'function': 'Array.add_trivial_leg', 'check': 'qdata/blocks'})
    if 'res._qdata[:, :axis]' not in src or 'res._qdata[:, axis:]' not in src or \
            'T.shape[:axis] + (1,) + T.shape[axis:]' not in src:
        rep.violation('AXIS-insert', m, 'Array.add_trivial_leg', 'insert-axis-data',
                      'block indices and block shapes get the new axis at the same position',
                      f.lineno)


def check_binary_sides(prog, rep):
    """in the merge of two block lists every call func(x, y) takes x from self's side and y from
    other's side (zeros stand in for a missing block of that side)"""
    m = prog.module(NPC)
    f = m.func('Array.ibinary_blockwise')
    n = 0
    for c in body_nodes(f):
        if isinstance(c, ast.Call) and isinstance(c.func, ast.Name) and c.func.id == 'func' and \
                len(c.args) == 2:
            n += 1
            x, y = c.args
            rep.instance('SIDES-binary', {'call': unparse(c)})

            def side(e):
                t = unparse(e)
                if t.startswith('np.zeros_like('):
                    inner = t[len('np.zeros_like('):-1]
                    return 'b' if inner.startswith('bdata') or inner == 'bt' else \
                        'a' if inner.startswith('adata') or inner == 'at' else '?'
                if t.startswith('adata') or t == 'at' or t == 'a':
                    return 'a'
                if t.startswith('bdata') or t == 'bt' or t == 'b':
                    return 'b'
                return '?'
            sx, sy = side(x), side(y)
            zx, zy = unparse(x).startswith('np.zeros_like('), unparse(y).startswith(
                'np.zeros_like(')
            # x: real a-block, or zeros shaped like the b-block;  y: real b-block or zeros like a
            okx = (sx == 'a' and not zx) or (zx and sx == 'b') or sx == '?'
            oky = (sy == 'b' and not zy) or (zy and sy == 'a') or sy == '?'
            if not (okx and oky):
                rep.violation('SIDES-binary', m, 'Array.ibinary_blockwise',
                              'operand-sides:' + unparse(c)[:50],
                              '`%s`: the first argument of func must come from self (a block of '
                              'self, or zeros in place of a block missing in self) and the second '
                              'from other; swapped operands give wrong results for every '
                              'non-symmetric function (subtract, divide, ...)' % unparse(c),
                              c.lineno)
    if n < 3:
        raise AnalysisError('ibinary_blockwise: merge calls of func not found')
    # both block lists sorted before the merge
    src = unparse(f)
    rep.instance('SIDES-binary', {'check': 'sorted before merge'})
    if 'self.isort_qdata()' not in src or 'other.isort_qdata()' not in src:
        rep.violation('SIDES-binary', m, 'Array.ibinary_blockwise', 'merge-unsorted',
                      'the two-pointer merge requires both block lists to be lexsorted first',
                      f.lineno)
    # labels are matched before combining
    rep.instance('SIDES-binary', {'check': 'labels aligned'})
    if 'other._transpose_same_labels(self._labels)' not in src:
        rep.violation('SIDES-binary', m, 'Array.ibinary_blockwise', 'labels-not-aligned',
                      'other must be transposed to the label order of self first', f.lineno)


def run(prog, rep, tier):
    rep.rule('AXIS-*', 'in functions that re-index axes, legs / labels / block-index columns / '
             'blocks use one index set; insertions happen at one position')
    rep.rule('LABEL-*', 'labels are propagated as documented (contraction cut positions, '
             'duplicate dropping, conjugation, pipe and split labels)')
    rep.rule('SIDES-binary', 'operand sides in the blockwise merge are not swapped')
    check_axis_carriers(prog, rep)
    check_contraction_labels(prog, rep)
    check_binary_sides(prog, rep)
    # the two-pointer merge / inner product trust the cached claim "block indices are lexsorted":
    # its truthfulness is a necessary condition for the linear-combination clause (rules of C02)
    from .c02 import check_flag_q
    check_flag_q(prog, rep, modules=(NPC, ))
    rep.floor('AXIS-carriers', 4)
    rep.floor('SIDES-binary', 4)
    rep.assumptions += ['equality of block values with numpy results is NOT decided',
                        'several label rules match normalised statements (sa/rules/c01.py)']
    return rep.finish(
        level='other',
        explanation='Bookkeeping clauses of C01 (leg labels propagated as documented; axes '
        'carriers re-indexed consistently; operand sides of the blockwise merge) decided on the '
        'current source of np_conserved.py. Values are not decided.')
