"""C01 — block-sparse algebra agrees with dense numpy: the bookkeeping clauses that are visible
in the shape of the code: per-axis carriers re-indexed by the same index expression (R-AXIS),
documented label propagation (R-LABEL), operand-side coherence in blockwise merges (R-FAMILY).
That block values equal numpy's is arithmetic over run-time data and not decided."""
import ast
import re

from ..carriers import slice_bounds
from ..core import (AnalysisError, body_nodes, bound_args, call_name, dotted, is_self_attr, key_text, kwarg,
                    local_defs, names_in, params, parent, stmts_of, unparse)
from ..linform import NotPoly, Poly, eval_poly
from ..normal import inline_temps
from ..pattern import find, guards_at, guards_of, iteration_source, pmatch

NPC = 'tenpy/linalg/np_conserved.py'


def _comp_index(node, defs):
    """index-set descriptor of a per-axis carrier expression, or None
    [S[a] for a in IDX] -> text(IDX) ; X[:, np.array(keep)] / X[:, keep] -> 'keep' ;
    np.ix_(rows, cols) -> cols"""
    if isinstance(node, ast.ListComp) and len(node.generators) == 1:
        g = node.generators[0]
        if isinstance(node.elt, ast.Subscript) and unparse(node.elt.slice) == unparse(g.target):
            return unparse(g.iter)
    if isinstance(node, ast.Call) and dotted(node.func) in ('np.asarray', 'np.array',
                                                            'np.ascontiguousarray') and node.args:
        return _comp_index(node.args[0], defs)
    if isinstance(node, ast.Subscript):
        sl = node.slice
        if isinstance(sl, ast.Tuple) and len(sl.elts) == 2:
            col = sl.elts[1]
            if isinstance(col, ast.Call) and dotted(col.func) == 'np.array' and col.args:
                col = col.args[0]
            if isinstance(col, ast.Name):
                # resolve `axes_arr = np.array(axes)`
                for v in defs.get(col.id, []):
                    if isinstance(v, ast.Call) and dotted(v.func) == 'np.array' and v.args and \
                            isinstance(v.args[0], ast.Name):
                        return v.args[0].id
                return col.id
        if isinstance(sl, ast.Call) and dotted(sl.func) == 'np.ix_' and len(sl.args) == 2:
            return unparse(sl.args[1])
    return None


AXIS_FUNCS = ['Array.itranspose', 'Array.take_slice', 'Array.squeeze', 'trace']


def check_axis_carriers(prog, rep):
    m = prog.module(NPC)
    rep.unit(m)
    for qn in AXIS_FUNCS:
        f = m.func(qn)
        defs = local_defs(f)
        carriers = {}
        for st in stmts_of(f):
            if isinstance(st, ast.Assign):
                for t in st.targets:
                    tt = unparse(t)
                    kind = None
                    if tt.endswith('.legs') or tt == 'legs':
                        kind = 'legs'
                    elif tt.endswith('._labels'):
                        kind = 'labels'
                    elif tt.endswith('._qdata'):
                        kind = 'qdata'
                    if kind:
                        idx = _comp_index(st.value, defs)
                        if idx is not None:
                            carriers.setdefault(kind, []).append((idx, st))
            for c in ast.walk(st):
                if isinstance(c, ast.Call) and call_name(c) == 'iset_leg_labels' and c.args:
                    idx = _comp_index(c.args[0], defs)
                    if idx is not None:
                        carriers.setdefault('labels', []).append((idx, st))
                if isinstance(c, ast.Call) and dotted(c.func) == 'Array' and c.args:
                    a0 = c.args[0]
                    if isinstance(a0, ast.Name):
                        for v in defs.get(a0.id, []):
                            idx = _comp_index(v, defs)
                            if idx is not None:
                                carriers.setdefault('legs', []).append((idx, st))
        # normalise `np.array(keep)`-style wrappers and keep_axes re-bound to arrays
        idxs = {}
        for kind, lst in carriers.items():
            for idx, st in lst:
                idxs.setdefault(kind, set()).add(re.sub(r'^np\.array\((\w+)\)$', r'\1', idx))
        rep.instance('AXIS-carriers', {'function': qn, 'carriers': {k: sorted(v)
                                                                    for k, v in idxs.items()}})
        if len(idxs) < 2:
            raise AnalysisError('%s: per-axis carriers (legs/labels/qdata) not found: %s' %
                                (qn, sorted(idxs)))
        allv = set().union(*idxs.values())
        if len(allv) != 1:
            rep.violation('AXIS-carriers', m, qn, 'carrier-index-mismatch',
                          'legs, labels and block-index columns of the result are re-indexed with '
                          'different index sets %s: labels/legs/blocks no longer describe the same '
                          'axes' % {k: sorted(v) for k, v in idxs.items()}, f.lineno)
    # transposition of the blocks uses the same axes
    f = m.func('Array.itranspose')
    rep.instance('AXIS-carriers', {'function': 'Array.itranspose', 'check': 'blocks'})
    okb = False
    for c in body_nodes(f):
        e = pmatch('np.transpose($b, $$ax)', c) or pmatch('$b.transpose($$ax)', c)
        if e and unparse(e['$$ax']) in ('axes', 'tuple(axes)', 'axes_arr'):
            src = iteration_source(f, e['$b'], at=c)
            if src is not None and 'self._data' in unparse(src):
                okb = True
    if not okb:
        rep.violation('AXIS-carriers', m, 'Array.itranspose', 'blocks-axes',
                      'the blocks must be transposed with the same `axes` as legs and labels',
                      f.lineno)


def _stmt(n):
    while not isinstance(n, ast.stmt):
        n = parent(n)
    return n


def _side_of(expr, a='a', b='b'):
    """'a' / 'b' / None: which operand's carriers an expression is built from"""
    nm = names_in(expr)
    if a in nm and b not in nm:
        return 'a'
    if b in nm and a not in nm:
        return 'b'
    return None


def _check_cuts(rep, m, q, f, want, need):
    """every slice of a per-axis carrier of operand X is cut at the one position want[X];
    `need`: (operand, carrier) pairs that must occur"""
    cuts = slice_bounds(f)
    seen = set()
    for c in cuts:
        if c.operand not in want:
            continue
        seen.add((c.operand, c.carrier))
        for bnd in (c.lo, c.hi):
            if bnd is not None and not (bnd == want[c.operand]):
                rep.violation('LABEL-cut', m, q, 'cut-positions:%s.%s' % (c.operand, c.carrier),
                              '`%s` cuts the %s of `%s` at [%r], but the other per-axis carriers '
                              '(legs / labels / block-index columns) of that operand are cut at '
                              '[%r]: they no longer describe the same axes' %
                              (unparse(c.node), c.carrier, c.operand, bnd, want[c.operand]),
                              c.node.lineno)
    missing = [x for x in need if x not in seen]
    rep.instance('LABEL-cut', {'function': q, 'carrier_slices': sorted('%s.%s' % x for x in seen)})
    if missing:
        rep.violation('LABEL-cut', m, q, 'cut-positions',
                      'the result keeps the first rank(a)-axes legs of a and the last rank(b)-axes '
                      'legs of b: legs, labels and block indices must all be cut at these '
                      'positions (no slice found for %s)' % missing, f.lineno)
    # concatenations put the part of a first
    for n in ast.walk(f):
        if isinstance(n, ast.BinOp) and isinstance(n.op, ast.Add):
            l, r = _carrier_side(n.left), _carrier_side(n.right)
            if l and r and (l, r) != ('a', 'b'):
                rep.violation('LABEL-cut', m, q, 'order:' + unparse(n)[:40],
                              '`%s`: the axes of a come first, then those of b' % unparse(n),
                              n.lineno)
        if isinstance(n, ast.Call) and call_name(n) == '_drop_duplicate_labels' and \
                len(n.args) == 2:
            l, r = _carrier_side(n.args[0]), _carrier_side(n.args[1])
            if (l, r) != ('a', 'b'):
                rep.violation('LABEL-cut', m, q, 'order:labels',
                              '`%s`: labels of a first, then those of b' % unparse(n), n.lineno)


def _carrier_side(e):
    """'a' / 'b' when e is (a slice of) a per-axis carrier of that operand"""
    base = e
    while isinstance(base, ast.Subscript):
        base = base.value
    if isinstance(base, ast.Attribute) and isinstance(base.value, ast.Name) and \
            base.attr in ('legs', '_labels', '_qdata') and base.value.id in ('a', 'b'):
        return base.value.id
    return None


def check_contraction_labels(prog, rep):
    m = prog.module(NPC)
    A, B, AX = Poly.sym('a.rank'), Poly.sym('b.rank'), Poly.sym('axes')
    # tensordot / worker: legs, labels and block indices cut at the same positions
    f = inline_temps(m.func('tensordot'))
    _check_cuts(rep, m, 'tensordot', f, {'a': A - AX, 'b': AX},
                [('a', 'legs'), ('b', 'legs'), ('a', 'labels'), ('b', 'labels'),
                 ('a', 'qdata'), ('b', 'qdata')])
    # one-block path: destination columns [:P] from a, [P:] from b
    for st in ast.walk(f):
        if isinstance(st, ast.Assign) and isinstance(st.targets[0], ast.Subscript) and \
                _carrier_side(st.value):
            sl = st.targets[0].slice
            col = sl.elts[1] if isinstance(sl, ast.Tuple) and len(sl.elts) == 2 else sl
            if isinstance(col, ast.Slice):
                side = _carrier_side(st.value)
                try:
                    lo = eval_poly(col.lower, {}) if col.lower is not None else None
                    hi = eval_poly(col.upper, {}) if col.upper is not None else None
                except NotPoly:
                    continue
                rep.instance('LABEL-cut', {'function': 'tensordot', 'store': key_text(st)})
                ok = (side == 'a' and lo is None and hi == A - AX) or \
                    (side == 'b' and hi is None and lo == A - AX)
                if not ok:
                    rep.violation('LABEL-cut', m, 'tensordot', 'cut-positions:dest',
                                  '`%s`: the block indices of a fill the columns [:rank(a)-axes] '
                                  'of the result, those of b the columns behind' % key_text(st),
                                  st.lineno)
    f = inline_temps(m.func('_tensordot_worker'))
    _check_cuts(rep, m, '_tensordot_worker', f, {'a': A - AX, 'b': AX},
                [('a', 'legs'), ('b', 'legs')])
    # block indices of the result: a-part columns first
    rep.instance('LABEL-cut', {'function': '_tensordot_worker', 'check': 'qdata order'})
    okq = False
    side = {}
    pre_names = {}
    for st in stmts_of(f):
        if not isinstance(st, ast.Assign) or not isinstance(st.targets[0], ast.Tuple):
            continue
        v = st.value
        # a_pre, b_pre, .. = _tensordot_pre_worker(a, b, ..): position k belongs to argument k
        if isinstance(v, ast.Call) and call_name(v) == '_tensordot_pre_worker' and \
                [unparse(x) for x in v.args[:2]] == ['a', 'b']:
            for k, e in enumerate(st.targets[0].elts[:2]):
                if isinstance(e, ast.Name):
                    pre_names[e.id] = 'ab'[k]
        sd = None
        if isinstance(v, ast.Name) and v.id in pre_names:
            sd = pre_names[v.id]
        if isinstance(v, ast.Subscript) and isinstance(v.value, ast.Call) and \
                call_name(v.value) == '_tensordot_pre_worker' and \
                isinstance(v.slice, ast.Constant) and v.slice.value in (0, 1) and \
                [unparse(x) for x in v.value.args[:2]] == ['a', 'b']:
            sd = 'ab'[v.slice.value]
        if sd:
            for e in st.targets[0].elts:
                if isinstance(e, ast.Name):
                    side[e.id] = sd
    def sides_in(v):
        sd = {side[x] for x in names_in(v) if x in side}
        for x in ast.walk(v):
            if isinstance(x, ast.Subscript) and isinstance(x.value, ast.Call) and \
                    call_name(x.value) == '_tensordot_pre_worker' and \
                    isinstance(x.slice, ast.Constant) and x.slice.value in (0, 1) and \
                    [unparse(y) for y in x.value.args[:2]] == ['a', 'b']:
                sd.add('ab'[x.slice.value])
        return sd

    if True:
        acc = {}
        for c in body_nodes(f):
            e = pmatch('$l.append($$v)', c)
            if e:
                sd = sides_in(e['$$v'])
                if len(sd) == 1:
                    acc.setdefault(e['$l'], set()).update(sd)
        for c in body_nodes(f):
            e = pmatch('np.concatenate(($x, $y), axis=1)', c) or \
                pmatch('np.hstack(($x, $y))', c) or pmatch('np.hstack([$x, $y])', c) or \
                pmatch('np.concatenate([$x, $y], axis=1)', c)
            if e and acc.get(e['$x']) == {'a'} and acc.get(e['$y']) == {'b'}:
                okq = True
    if not okq:
        rep.violation('LABEL-cut', m, '_tensordot_worker', 'cut-positions:qdata',
                      'result legs = a.legs[:cut_a] + b.legs[cut_b:] with block indices '
                      'concatenated in the same order (kept columns of a, then of b)', f.lineno)
    # outer: everything of a followed by everything of b
    f = inline_temps(m.func('outer'))
    rep.instance('LABEL-cut', {'function': 'outer'})
    why = None
    if not find('Array(a.legs + b.legs, $$d, $$q)', f):
        why = 'legs of the result must be a.legs + b.legs'
    elif not find('_drop_duplicate_labels(a._labels, b._labels)', f):
        why = 'labels: those of a, then those of b (duplicates dropped)'
    else:
        dst = {}
        for st in stmts_of(f):
            e = pmatch('$d[:, :$$p] = $$v', st)
            if e:
                dst['a'] = (e['$$p'], e['$$v'], e['$d'])
            e = pmatch('$d[:, $$p:] = $$v', st)
            if e:
                dst['b'] = (e['$$p'], e['$$v'], e['$d'])
        if set(dst) != {'a', 'b'}:
            why = 'block-index columns of a and of b are stored side by side'
        else:
            for sd, col in (('a', '0'), ('b', '1')):
                pz, v, d = dst[sd]
                if unparse(pz) != 'a.rank' or ('%s._qdata' % sd) not in unparse(v) or \
                        not find('$$g[:, %s]' % col, v):
                    why = 'columns [:a.rank] hold the block indices of a (first grid column), ' \
                        'columns [a.rank:] those of b (second grid column); found `%s = %s`' % (
                            d, unparse(v)[:50])
            g = [c for c in body_nodes(f) if isinstance(c, ast.Subscript) and
                 unparse(c.value) == 'np.mgrid']
            if not g or not isinstance(g[0].slice, ast.Tuple) or len(g[0].slice.elts) != 2 or \
                    'a._qdata' not in unparse(g[0].slice.elts[0]) or \
                    'b._qdata' not in unparse(g[0].slice.elts[1]):
                why = why or 'the block grid enumerates (block of a, block of b)'
            prod = [e for n, e in find('$da[$i] * $db[$j]', f)]
            if prod:
                src_i = iteration_source(f, prod[0]['$i'])
                da = local_defs(f).get(prod[0]['$da'], [])
                db = local_defs(f).get(prod[0]['$db'], [])
                if not (da and 'a._data' in unparse(da[0]) and db and 'b._data' in unparse(db[0])):
                    why = why or 'block (i, j) of the result is block i of a times block j of b'
    if why:
        rep.violation('LABEL-cut', m, 'outer', 'order',
                      'outer(a, b): legs, labels and block-index columns are those of a followed '
                      'by those of b: ' + why, f.lineno)
    # _drop_duplicate_labels: a label occurring on both sides is dropped on BOTH
    f = m.func('_drop_duplicate_labels')
    rep.instance('LABEL-helper', {'function': '_drop_duplicate_labels'})
    why = _drop_dup_defect(f)
    if why:
        rep.violation('LABEL-helper', m, '_drop_duplicate_labels', 'duplicates',
                      'duplicate labels are set to None in both operands (on copies of the lists), '
                      'result = a-labels followed by b-labels: ' + why, f.lineno)
    # conj: every label conjugated
    f = inline_temps(m.func('Array.conj'), keep=('labels', ))
    rep.instance('LABEL-helper', {'function': 'Array.conj'})
    ok = False
    for c in body_nodes(f):
        e = pmatch('$$s._conj_leg_label($l)', c)
        if not e:
            continue
        l = e['$l']
        g = {(t, pol) for t, pol, _ in guards_at(f, c)}
        src = iteration_source(f, l, at=c)
        srct = unparse(src) if src is not None else ''
        if isinstance(src, ast.Name):
            srct = ' '.join(unparse(v) for v in local_defs(f).get(src.id, [])) or srct
        stored = any(isinstance(st, ast.Assign) and unparse(st.targets[0]) == 'res._labels'
                     for st in stmts_of(f))
        if ('%s is None' % l, False) in g and 'res._labels' in srct and stored:
            ok = True
    if not ok:
        rep.violation('LABEL-helper', m, 'Array.conj', 'labels',
                      'conj must map every non-None label through _conj_leg_label', f.lineno)
    # combine_legs / split_legs label helpers
    f = inline_temps(m.func('Array.combine_legs'), keep=('labels', 'pipe_labels'))
    rep.instance('LABEL-helper', {'function': 'Array.combine_legs'})
    why = _combine_labels_defect(f)
    if why:
        rep.violation('LABEL-helper', m, 'Array.combine_legs', 'pipe-labels',
                      'the label of a pipe combines the labels of exactly the legs of that pipe '
                      'and replaces them at the new axis: ' + why, f.lineno)
    f = inline_temps(m.func('Array.split_legs'), keep=('labels', ))
    rep.instance('LABEL-helper', {'function': 'Array.split_legs'})
    why = 'the replacement of the pipe label by its sub-labels was not found'
    for st in ast.walk(f):
        e = pmatch('$L[$a:$a + 1] = $$rhs', st) if isinstance(st, ast.Assign) else None
        if not e:
            continue
        L_, a_ = e['$L'], e['$a']
        r = pmatch('self._split_leg_label(%s[%s], self.legs[%s].nlegs)' % (L_, a_, a_), e['$$rhs'])
        it = iteration_source(f, a_, at=st)
        itt = unparse(it) if it is not None else ''
        desc = bool(it is not None and (
            pmatch('sorted($$x, reverse=True)', it) or pmatch('reversed($$x)', it) or
            pmatch('$$x[::-1]', it)))
        if not r:
            why = '`%s` must split the label at that axis into the nlegs sub-labels of the pipe ' \
                'at the same axis' % key_text(st)[:70]
        elif not desc or 'axes' not in itt:
            why = 'axes must be processed from the back (`%s`) so earlier positions stay valid' % itt
        else:
            why = None
    if why:
        rep.violation('LABEL-helper', m, 'Array.split_legs', 'split-labels',
                      'splitting replaces the pipe label at axis a by its nlegs sub-labels, '
                      'processing axes from the back so positions stay valid: ' + why, f.lineno)
    # add_leg / add_trivial_leg: insert at the same axis everywhere
    for qn in ('Array.add_leg', 'Array.add_trivial_leg'):
        f = inline_temps(m.func(qn))
        rep.instance('AXIS-insert', {'function': qn})
        ins = [unparse(c.args[0]) for c in body_nodes(f) if isinstance(c, ast.Call) and
               call_name(c) == 'insert' and c.args]
        if len(ins) < 2 or len(set(ins)) != 1 or ins[0] != 'axis':
            rep.violation('AXIS-insert', m, qn, 'insert-axis',
                          'the new leg and its label must be inserted at the same position `axis` '
                          '(got %s)' % ins, f.lineno)
    f = inline_temps(m.func('Array.add_trivial_leg'))
    rep.instance('AXIS-insert', {'function': 'Array.add_trivial_leg', 'check': 'qdata/blocks'})
    cuts = [c for c in slice_bounds(f) if c.carrier in ('qdata', 'shape')]
    axp = Poly.sym('axis')
    kinds = {c.carrier for c in cuts}
    bad = [c for c in cuts for bnd in (c.lo, c.hi) if bnd is not None and not (bnd == axp)]
    if kinds != {'qdata', 'shape'} or bad or len(cuts) < 4:
        rep.violation('AXIS-insert', m, 'Array.add_trivial_leg', 'insert-axis-data',
                      'block indices and block shapes get the new axis at the same position '
                      '(slices found: %s)' % cuts, f.lineno)


def _drop_dup_defect(f):
    pa, pb = params(f)[0], params(f)[1]
    defs = local_defs(f)

    def copy_of(name):
        """which parameter the list `name` is a copy of"""
        for v in defs.get(name, []):
            for p_ in (pa, pb):
                if pmatch('list(%s)' % p_, v) or pmatch('%s[:]' % p_, v) or \
                        pmatch('%s.copy()' % p_, v) or pmatch('[$x for $x in %s]' % p_, v):
                    return p_
        return None

    stores = [(n, e) for n, e in find('$L[$$i] = None', f)]
    lists = {e['$L'] for _, e in stores}
    src = {L_: copy_of(L_) for L_ in lists}
    if sorted(src.values(), key=str) != sorted([pa, pb]):
        return 'the label must be set to None in a copy of each of the two lists (got %s)' % src
    la = [L_ for L_, p_ in src.items() if p_ == pa][0]
    lb = [L_ for L_, p_ in src.items() if p_ == pb][0]
    # guarded by membership of the a-label in the b-list; b index = position of that label
    for n, e in stores:
        g = {(t, pol) for t, pol, _ in guards_of(f, n)}
        if not any(pol and t.endswith(' in %s' % lb) for t, pol in g):
            return '`%s` must happen only for labels present in both lists' % key_text(n)
        if e['$L'] == lb:
            idx = e['$$i']
            txt = unparse(idx)
            if isinstance(idx, ast.Name):
                txt = ' '.join(unparse(v) for v in defs.get(idx.id, []))
            if '%s.index(' % lb not in txt:
                return 'the entry of the second list to drop is the position of the same label'
    rets = [st for st in ast.walk(f) if isinstance(st, ast.Return)]
    if len(rets) != 1:
        return 'single return expected'
    rv = rets[0].value
    if pmatch('%s + %s' % (la, lb), rv) and unparse(rv).startswith(la):
        return None
    if isinstance(rv, ast.Name) and rv.id == la and find('%s.extend(%s)' % (la, lb), f):
        return None
    return 'result must be the a-labels followed by the b-labels (returns `%s`)' % unparse(rv)


def _combine_labels_defect(f):
    calls = [c for c in body_nodes(f) if pmatch('self._combine_leg_labels($$arg)', c)]
    if len(calls) != 1:
        return '%d calls of _combine_leg_labels' % len(calls)
    arg = pmatch('self._combine_leg_labels($$arg)', calls[0])['$$arg']
    if isinstance(arg, ast.Name):
        d = local_defs(f).get(arg.id, [])
        arg = d[0] if len(d) == 1 else arg
    e = pmatch('[$L[$c] for $c in $cl]', arg)
    if not e:
        return 'the pipe label must combine `[labels[c] for c in cl]`, the labels of the legs of ' \
            'that pipe (found `%s`)' % unparse(arg)[:60]
    L_, cl = e['$L'], e['$cl']
    src = iteration_source(f, cl)
    if src is None or unparse(src) != 'combine_legs':
        return 'pipe labels must be generated for each entry of combine_legs'
    # where the produced labels are collected
    st = _stmt(calls[0])
    coll = None
    if isinstance(st, ast.Assign) and isinstance(st.targets[0], ast.Name):
        coll = st.targets[0].id
    ap = pmatch('$pl.append($$x)', st.value) if isinstance(st, ast.Expr) else None
    if ap:
        coll = ap['$pl']
    if coll is None:
        return 'the generated pipe labels are not collected in a list'
    rep_st = [(n, e2) for n, e2 in find('%s[$na:$na + $p.nlegs] = [$pl]' % L_, f)]
    if len(rep_st) != 1:
        return 'the labels of the combined legs must be replaced by `[pipe label]` at ' \
            '[new axis : new axis + nlegs]'
    n2, e2 = rep_st[0]
    srcs = [iteration_source(f, e2[k]) for k in ('$na', '$p', '$pl')]
    if [unparse(x) if x is not None else None for x in srcs] != ['new_axes', 'pipes', coll]:
        return 'new axis, pipe and pipe label must run in parallel over new_axes / pipes / the ' \
            'generated labels'
    lp = parent(n2)
    while lp is not None and not isinstance(lp, ast.For):
        lp = parent(lp)
    gen_end = getattr(parent(st) if isinstance(parent(st), ast.For) else st, 'end_lineno', st.lineno)
    if lp is None or gen_end >= lp.lineno:
        return 'all pipe labels must be generated before the loop that shifts the entries of labels'
    return None


def check_binary_sides(prog, rep):
    """in the merge of two block lists every call func(x, y) takes x from self's side and y from
    other's side (zeros stand in for a missing block of that side)"""
    m = prog.module(NPC)
    f0 = m.func('Array.ibinary_blockwise')
    f = inline_temps(f0)
    po = params(f0)[2]
    n = 0

    def side(e, at):
        """'a' (blocks of self) / 'b' (blocks of other) / '?'; zeros_like(X) has X's shape, i.e.
        stands in for the OTHER side"""
        sd = set()
        for x in ast.walk(e):
            if isinstance(x, ast.Attribute) and x.attr in ('_data', '_qdata') and \
                    isinstance(x.value, ast.Name):
                sd.add('a' if x.value.id == 'self' else ('b' if x.value.id == po else '?'))
            if isinstance(x, ast.Name) and isinstance(x.ctx, ast.Load):
                src = iteration_source(f, x.id, at=at)
                if src is not None:
                    sd |= {'a' if 'self._' in unparse(src) and po + '._' not in unparse(src)
                           else ('b' if po + '._' in unparse(src) and 'self._' not in unparse(src)
                                 else '?')}
        sd.discard('?')
        return sd.pop() if len(sd) == 1 else '?'

    for c in body_nodes(f):
        if isinstance(c, ast.Call) and isinstance(c.func, ast.Name) and c.func.id == 'func' and \
                len(c.args) == 2 and not isinstance(parent(c), ast.Lambda):
            n += 1
            x, y = c.args
            rep.instance('SIDES-binary', {'call': unparse(c)[:100]})
            zx = isinstance(x, ast.Call) and dotted(x.func) == 'np.zeros_like'
            zy = isinstance(y, ast.Call) and dotted(y.func) == 'np.zeros_like'
            sx = side(x.args[0] if zx and x.args else x, c)
            sy = side(y.args[0] if zy and y.args else y, c)
            # x: real a-block, or zeros shaped like the b-block;  y: real b-block or zeros like a
            okx = (sx == 'a' and not zx) or (zx and sx == 'b') or sx == '?'
            oky = (sy == 'b' and not zy) or (zy and sy == 'a') or sy == '?'
            if not (okx and oky):
                rep.violation('SIDES-binary', m, 'Array.ibinary_blockwise',
                              'operand-sides:' + unparse(c)[:50],
                              '`%s`: the first argument of func must come from self (a block of '
                              'self, or zeros in place of a block missing in self) and the second '
                              'from other; swapped operands give wrong results for every '
                              'non-symmetric function (subtract, divide, ...)' % unparse(c)[:120],
                              c.lineno)
    if n < 3:
        raise AnalysisError('ibinary_blockwise: merge calls of func not found')
    first_use = min(c.lineno for c in body_nodes(f0) if isinstance(c, ast.Call) and
                    isinstance(c.func, ast.Name) and c.func.id == 'func' and
                    not isinstance(parent(c), ast.Lambda))
    # both block lists sorted before the merge
    rep.instance('SIDES-binary', {'check': 'sorted before merge'})
    srt = {unparse(c.func.value): c.lineno for c in body_nodes(f0) if isinstance(c, ast.Call) and
           isinstance(c.func, ast.Attribute) and c.func.attr == 'isort_qdata'}
    if not ({'self', po} <= set(srt)) or max(srt['self'], srt[po]) > first_use:
        rep.violation('SIDES-binary', m, 'Array.ibinary_blockwise', 'merge-unsorted',
                      'the two-pointer merge requires both block lists to be lexsorted first',
                      f0.lineno)
    # labels are matched before combining
    rep.instance('SIDES-binary', {'check': 'labels aligned'})
    al = [st for st in stmts_of(f0) if pmatch('%s = %s._transpose_same_labels(self._labels)' %
                                               (po, po), st) or
          pmatch('%s = %s._transpose_same_labels(self.get_leg_labels())' % (po, po), st)]
    if not al or al[0].lineno > min(srt.values() or [first_use]):
        rep.violation('SIDES-binary', m, 'Array.ibinary_blockwise', 'labels-not-aligned',
                      'other must be transposed to the label order of self first', f0.lineno)


def check_last_wins(prog, rep):
    """A name assigned in every iteration of a loop from the loop variable, never read inside the
    loop and read after it keeps only the value of the last iteration -- e.g. a result dtype
    "accumulated" as promote(first, a) instead of promote(dtype, a)."""
    n = 0
    for rel in (NPC, 'tenpy/linalg/charges.py'):
        m = prog.module(rel)
        for q, f in m.functions.items():
            for lp in ast.walk(f):
                if not isinstance(lp, ast.For):
                    continue
                n += 1
                if any(isinstance(x, (ast.Break, ast.Return)) for x in ast.walk(lp)):
                    continue
                tg = {x.id for x in ast.walk(lp.target) if isinstance(x, ast.Name)}
                for st in lp.body:
                    if not (isinstance(st, ast.Assign) and len(st.targets) == 1 and
                            isinstance(st.targets[0], ast.Name)):
                        continue
                    x = st.targets[0].id
                    if x in names_in(st.value) or not (names_in(st.value) & tg):
                        continue
                    inside = [y for y in ast.walk(lp) if isinstance(y, ast.Name) and y.id == x and
                              isinstance(y.ctx, ast.Load)]
                    after = [y for y in ast.walk(f) if isinstance(y, ast.Name) and y.id == x and
                             isinstance(y.ctx, ast.Load) and y.lineno > lp.end_lineno]
                    if inside or not after:
                        continue
                    rep.violation('ACCUM-last-wins', m, q, 'last-wins:' + x,
                                  '`%s` inside `for %s in %s` is overwritten in every iteration '
                                  'and only read after the loop (`%s`): the contributions of all '
                                  'but the last element are lost' %
                                  (key_text(st)[:70], unparse(lp.target), unparse(lp.iter)[:30],
                                   key_text(_stmt(after[0]))[:50]), st.lineno)
    rep.instance('ACCUM-last-wins', {'loops_examined': n})
    return n


LEN_LIKE = re.compile(r'(\.ind_len$|\.rank$|\.block_number$|^len\(|\.shape\[|\.stored_blocks$)')


def check_inclusive_bounds(prog, rep):
    """index validity: `if idx > LENGTH: raise` accepts idx == LENGTH, one past the end (numpy
    raises IndexError there). Against a length-like quantity the rejecting comparison is >=."""
    n = 0
    for rel in (NPC, 'tenpy/linalg/charges.py'):
        m = prog.module(rel)
        for q, f0 in m.functions.items():
            if not any(isinstance(st, ast.If) and any(isinstance(b, ast.Raise) for b in st.body)
                       and any(isinstance(c, ast.Compare) for c in ast.walk(st.test))
                       for st in ast.walk(f0)):
                continue
            f = inline_temps(f0)      # `n = self.ind_len` ... `if i >= n` is a length test too
            for st in ast.walk(f):
                if not (isinstance(st, ast.If) and any(isinstance(b, ast.Raise) for b in st.body)):
                    continue
                for c in ast.walk(st.test):
                    if isinstance(c, ast.Compare) and len(c.ops) == 1 and isinstance(
                            c.ops[0], (ast.Gt, ast.Lt, ast.GtE, ast.LtE)):
                        gt = isinstance(c.ops[0], (ast.Gt, ast.GtE))
                        big = c.comparators[0] if gt else c.left
                        small = c.left if gt else c.comparators[0]
                        if LEN_LIKE.search(unparse(big)) and isinstance(small, (
                                ast.Name, ast.Subscript)) and not LEN_LIKE.search(unparse(small)):
                            n += 1
                            strict = isinstance(c.ops[0], (ast.Gt, ast.Lt))
                            rep.instance('BOUND-inclusive', {'function': q, 'test': unparse(c),
                                                             'strict': strict})
                            if strict:
                                rep.violation('BOUND-inclusive', m, q, 'strict-bound:' + unparse(c),
                                              '`%s` rejects only indices beyond `%s`; the index '
                                              'equal to it is one past the end and is accepted '
                                              '(numpy raises IndexError)' %
                                              (unparse(c), unparse(big)), c.lineno)
    if n < 2:
        raise AnalysisError('BOUND-inclusive: bound checks of get_qindex / get_leg_index not found')


def check_setitem_zero(prog, rep):
    """self[inds] = other: blocks of the addressed part that `other` does not store are zero in
    `other`, so the addressed part is zeroed unconditionally before the blocks of `other` are
    copied in."""
    m = prog.module(NPC)
    f = m.func('Array._advanced_setitem_npc')
    zero = [st for st in ast.walk(f) if isinstance(st, ast.Assign) and
            isinstance(st.targets[0], ast.Subscript) and isinstance(st.value, ast.Constant) and
            st.value.value in (0, 0.0)]
    copy_ = [st for st in ast.walk(f) if isinstance(st, ast.Assign) and
             isinstance(st.targets[0], ast.Subscript) and isinstance(st.value, ast.Name) and
             (iteration_source(f, st.value.id, at=st) is not None and
              'other' in unparse(iteration_source(f, st.value.id, at=st)))]
    rep.instance('SETITEM-zero-first', {'zeroing': [key_text(s) for s in zero],
                                        'copying': [key_text(s) for s in copy_]})
    if not zero or not copy_:
        raise AnalysisError('_advanced_setitem_npc: zeroing / copying stores not found')
    zloop = parent(zero[0])
    cloop = parent(copy_[0])
    gz = {(t, pol) for t, pol, _ in guards_of(f, zloop if isinstance(zloop, ast.For) else zero[0])}
    gc = {(t, pol) for t, pol, _ in guards_of(f, cloop if isinstance(cloop, ast.For)
                                              else copy_[0])}
    g = [(t, pol, None) for t, pol in sorted(gz - gc)]      # conditions on the zeroing alone
    src = unparse(zloop.iter) if isinstance(zloop, ast.For) else ''
    if g or 'self_part' not in src or zero[0].lineno > copy_[0].lineno:
        rep.violation('SETITEM-zero-first', m, 'Array._advanced_setitem_npc', 'zeroing-conditional',
                      'the addressed part must be set to zero for EVERY stored block of it before '
                      'the blocks of `other` are copied (conditions found: %s): a block that '
                      '`other` does not store would keep its old values' %
                      [t for t, _, _ in g], zero[0].lineno)


def run(prog, rep, tier):
    rep.rule('AXIS-*', 'in functions that re-index axes, legs / labels / block-index columns / '
             'blocks use one index set; insertions happen at one position')
    rep.rule('LABEL-*', 'labels are propagated as documented (contraction cut positions, '
             'duplicate dropping, conjugation, pipe and split labels)')
    rep.rule('SIDES-binary', 'operand sides in the blockwise merge are not swapped')
    check_axis_carriers(prog, rep)
    check_contraction_labels(prog, rep)
    check_binary_sides(prog, rep)
    if check_last_wins(prog, rep) < 100:
        raise AnalysisError('ACCUM-last-wins: loops of np_conserved.py not found')
    check_setitem_zero(prog, rep)
    check_inclusive_bounds(prog, rep)
    # the two-pointer merge / inner product trust the cached claim "block indices are lexsorted":
    # its truthfulness is a necessary condition for the linear-combination clause (rules of C02)
    from .c02 import check_flag_q
    check_flag_q(prog, rep, modules=(NPC, ))
    rep.floor('AXIS-carriers', 4)
    rep.floor('SIDES-binary', 4)
    rep.assumptions += ['equality of block values with numpy results is NOT decided',
                        'several label rules match normalised statements (sa/rules/c01.py)']
    rep.rule('SLICE-neg-zero', 'a negative slice bound -E needs E != 0 at that point')
    if check_neg_zero_slices(prog, rep) < 3:
        raise AnalysisError('SLICE-neg-zero: the slices of _tensordot_transpose_axes / _tensordot_worker not found')
    rep.rule('AXIS-default-order-free', 'the default position of a combined leg depends on leg '
             'numbers only, not on the order in which the groups are listed')
    if check_default_axes_order_free(prog, rep) < 1:
        raise AnalysisError('AXIS-default-order-free: default branch of _combine_legs_new_axes not found')
    rep.rule('AXES-parallel-sort', 'inner() re-orders axes_a by argsort(axes_b) when it normalises '
             'axes_b to range(rank)')
    if check_parallel_sort(prog, rep) < 1:
        rep.note('AXES-parallel-sort: inner() does not gather the axes of a through an index '
                 'derived from the axes of b (another normalisation is used): nothing to decide')
    rep.rule('SPLICE-descending', 'one-for-many list splices at the loop variable run over '
             'descending positions')
    if check_splice_order(prog, rep) < 3:
        raise AnalysisError('SPLICE-descending: the splices of split_legs were not found')
    rep.rule('BLOCKS-permute-compare', 'a tensor permuted with Array.permute (bunched leg) is '
             'rewritten in the blocks of its partner before a block-by-block leg comparison')
    if check_permute_compare(prog, rep) < 1:
        raise AnalysisError('BLOCKS-permute-compare: _advanced_setitem_npc not recognised')
    from ..flow import check_carried_flags
    rep.rule('LOOP-carried-flag', 'a flag set under a test inside a loop body and read there is '
             're-initialised per iteration')
    check_carried_flags(prog, rep, ['tenpy/linalg/np_conserved.py', 'tenpy/linalg/charges.py'])
    return rep.finish(
        level='other',
        explanation='Bookkeeping clauses of C01 (leg labels propagated as documented; axes '
        'carriers re-indexed consistently; operand sides of the blockwise merge) decided on the '
        'current source of np_conserved.py. Values are not decided.')


# ------------------------------------------------------------------ SLICE-neg-zero
# negative slice bounds whose operand cannot be zero for a documented reason
NEG_ZERO_OK = {
    ('tenpy/linalg/np_conserved.py', '_tensordot_transpose_axes', 'a.legs[-axes:]'):
        'zipped with b.legs[:axes]: for axes == 0 the second sequence is empty and so is the zip',
}


def _nonzero_guard(gs, text):
    """do the conditions `gs` imply `text` != 0 ?  Decided propositionally: under the hypothesis
    text == 0 every comparison of `text` with a constant (and the truth value of `text` itself) is
    fixed; all other sub-conditions are free atoms. The guards exclude zero iff no assignment of the
    free atoms satisfies all of them."""
    import itertools
    atoms = []

    def fixed(e):
        if unparse(e) == text:
            return False
        if isinstance(e, ast.Compare) and len(e.ops) == 1:
            l, r, op = e.left, e.comparators[0], e.ops[0]
            flip = {ast.Lt: ast.Gt, ast.Gt: ast.Lt, ast.LtE: ast.GtE, ast.GtE: ast.LtE}
            if unparse(r) == text and isinstance(l, ast.Constant):
                l, r = r, l
                op = flip.get(type(op), type(op))()
            if unparse(l) == text and isinstance(r, ast.Constant) and isinstance(
                    r.value, (int, float)) and not isinstance(r.value, bool):
                c = r.value
                table = {ast.Eq: 0 == c, ast.NotEq: 0 != c, ast.Lt: 0 < c, ast.LtE: 0 <= c,
                         ast.Gt: 0 > c, ast.GtE: 0 >= c}
                return table.get(type(op))
        return None

    def collect(e):
        if isinstance(e, ast.BoolOp):
            for v in e.values:
                collect(v)
        elif isinstance(e, ast.UnaryOp) and isinstance(e.op, ast.Not):
            collect(e.operand)
        elif fixed(e) is None and unparse(e) not in atoms:
            atoms.append(unparse(e))

    def ev(e, env):
        if isinstance(e, ast.BoolOp):
            vals = [ev(v, env) for v in e.values]
            return all(vals) if isinstance(e.op, ast.And) else any(vals)
        if isinstance(e, ast.UnaryOp) and isinstance(e.op, ast.Not):
            return not ev(e.operand, env)
        fx = fixed(e)
        return env[unparse(e)] if fx is None else fx
    for t, pol, e in gs:
        collect(e)
    if len(atoms) > 12:
        return False
    for bits in itertools.product((False, True), repeat=len(atoms)):
        env = dict(zip(atoms, bits))
        if all(ev(e, env) == bool(pol) for t, pol, e in gs):
            return False      # text == 0 is consistent with the conditions
    return True


def check_neg_zero_slices(prog, rep):
    """SLICE-neg-zero: `x[:-k]` / `x[-k:]` mean "all but the last k" / "the last k" only for
    k > 0: for k == 0 python reads `x[:0]` (nothing) and `x[0:]` (everything). A slice bound `-E`
    with a non-constant E therefore needs a condition at that point (or at every call site, for a
    parameter of a private function) that excludes E == 0, or the length-based form
    `x[:len(x) - k]`."""
    n = 0
    for rel in (NPC, 'tenpy/linalg/charges.py'):
        m = prog.module(rel)
        for q, f in m.functions.items():
            for sl in ast.walk(f):
                if not isinstance(sl, ast.Slice):
                    continue
                for b in (sl.lower, sl.upper):
                    if not (isinstance(b, ast.UnaryOp) and isinstance(b.op, ast.USub) and
                            not isinstance(b.operand, ast.Constant)):
                        continue
                    text = unparse(b.operand)
                    sub = parent(sl)
                    n += 1
                    ok = _nonzero_guard(guards_at(f, sl), text)
                    why = 'guard' if ok else None
                    if not ok and (rel, q, unparse(sub)) in NEG_ZERO_OK:
                        ok, why = True, 'table'
                    if not ok and isinstance(b.operand, ast.Name) and b.operand.id in params(f) \
                            and f.name.startswith('_'):
                        # parameter of a private worker: excluded at every call site?
                        sites = []
                        for q2, g in m.functions.items():
                            for c in ast.walk(g):
                                if isinstance(c, ast.Call) and call_name(c) == f.name:
                                    ba = bound_args(c, f, skip_self=False)
                                    arg = ba.get(b.operand.id)
                                    if arg is not None:
                                        sites.append(_nonzero_guard(guards_at(g, c),
                                                                    unparse(arg)))
                        if sites and all(sites):
                            ok, why = True, 'call-sites'
                    rep.instance('SLICE-neg-zero', {'function': q, 'slice': unparse(sub)[:60],
                                                    'nonzero_by': why})
                    if not ok:
                        rep.violation('SLICE-neg-zero', m, q, 'neg-zero:' + unparse(sub)[:50],
                                      '`%s`: for %s == 0 the bound -%s is 0, so the slice is %s '
                                      'instead of %s; nothing at this point excludes %s == 0' %
                                      (unparse(sub)[:60], text, text,
                                       'empty' if b is sl.upper else 'the whole sequence',
                                       'the whole sequence' if b is sl.upper else 'empty', text),
                                      sl.lineno)
    return n


# ------------------------------------------------------------------ BLOCKS-permute-compare
def check_permute_compare(prog, rep):
    """BLOCKS-permute-compare: Array.permute() returns a tensor whose permuted leg is BUNCHED (fact
    read off its body: the new leg is `.bunch()`ed). A leg of an arbitrary operand keeps its own
    block structure (possibly several blocks of equal charge). Comparing the two with the
    block-by-block tests `test_contractible` / `test_equal` therefore rejects operands whose charges
    agree index by index; between `v = x.permute(..)` and such a comparison of `v.legs` the tensor
    must be rewritten in the blocks of its partner (`from_ndarray(.., legs, ..)`)."""
    m = prog.module(NPC)
    perm = m.func('Array.permute')
    bunches = any(isinstance(c, ast.Call) and isinstance(c.func, ast.Attribute) and
                  c.func.attr == 'bunch' for c in ast.walk(perm))
    rep.instance('BLOCKS-permute-compare', {'fact': 'Array.permute bunches the new leg',
                                            'holds': bunches})
    n = 0
    if not bunches:
        return 1
    for q, f in m.functions.items():
        perms = [st for st in stmts_of(f) if isinstance(st, ast.Assign) and isinstance(
            st.targets[0], ast.Name) and isinstance(st.value, ast.Call) and isinstance(
                st.value.func, ast.Attribute) and st.value.func.attr == 'permute']
        for st in perms:
            v = st.targets[0].id
            cmps = []
            for c in ast.walk(f):
                if not (isinstance(c, ast.Call) and isinstance(c.func, ast.Attribute) and
                        c.func.attr in ('test_contractible', 'test_equal') and
                        c.lineno > st.lineno):
                    continue
                # the legs compared: directly `v.legs[..]` or loop variables of zip(.., v.legs)
                names = {x.id for x in ast.walk(c) if isinstance(x, ast.Name)}
                direct = any(unparse(x).startswith(v + '.legs') for x in ast.walk(c)
                             if isinstance(x, (ast.Attribute, ast.Subscript)))
                via_loop = False
                for lp in ast.walk(f):
                    if isinstance(lp, ast.For) and any(sub is c for sub in ast.walk(lp)) and \
                            (v + '.legs') in unparse(lp.iter) and names & {
                                x.id for x in ast.walk(lp.target) if isinstance(x, ast.Name)}:
                        via_loop = True
                if direct or via_loop:
                    cmps.append(c)
            if not cmps:
                continue
            n += 1
            first = min(c.lineno for c in cmps)
            reblock = [a for a in stmts_of(f) if isinstance(a, ast.Assign) and any(
                isinstance(t, ast.Name) and t.id == v for t in a.targets) and
                st.lineno < a.lineno < first and any(
                    isinstance(c, ast.Call) and (call_name(c) or '').split('.')[-1] ==
                    'from_ndarray' for c in ast.walk(a.value))]
            rep.instance('BLOCKS-permute-compare', {'function': q, 'permuted': v,
                                                    'reblocked_before_compare': bool(reblock)})
            if not reblock:
                rep.violation('BLOCKS-permute-compare', m, q, 'bunched-vs-blocks:' + v,
                              '`%s` (leg bunched by permute) is compared block by block with the '
                              'legs of its partner at line %d without being rewritten in the '
                              'partner\'s blocks: operands whose leg has several blocks of equal '
                              'charge are rejected ("incompatible LegCharge") although the '
                              'charges agree index by index' % (key_text(st)[:60], first),
                              st.lineno)
    return n



# ------------------------------------------------------------------ AXES-parallel-sort
def check_parallel_sort(prog, rep):
    """inner(a, b, axes=(axes_a, axes_b)) may permute both axis lists together; it brings the axes
    of b to range(rank) and must move the axes of a by the SAME re-ordering, i.e. the one that sorts
    the axes of b: new_a[k] = axes_a[j] with axes_b[j] == k, j = argsort(axes_b)[k].  Indexing the
    a-list with the b-list itself applies the inverse map (equal only for involutions: any rank-2
    case).  The two lists are identified by data flow (`a.get_leg_indices` / `b.get_leg_indices`),
    the re-ordering by the subscript `A[i]` with `i` bound by a loop or comprehension."""
    m = prog.module(NPC)
    n = 0
    for qn in ('inner', ):
        f = m.func(qn)
        defs = {}
        for st in ast.walk(f):
            if isinstance(st, ast.Assign) and len(st.targets) == 1 and isinstance(
                    st.targets[0], ast.Name):
                defs.setdefault(st.targets[0].id, []).append(st.value)

        def family(obj):
            fam = {nm for nm, ds in defs.items() for d in ds if isinstance(d, ast.Call) and
                   unparse(d.func) == obj + '.get_leg_indices'}
            return fam
        A, B = family('a'), family('b')
        if not A or not B:
            raise AnalysisError('AXES-parallel-sort: axis lists of inner() not found')

        def is_sorter(e):
            return any(isinstance(c, ast.Call) and (unparse(c.func).endswith('argsort') or
                                                    unparse(c.func) == 'sorted') and
                       B & {x for a_ in c.args for x in names_in(a_)} for c in ast.walk(e))

        def b_derived(e, depth=0):
            """-> 'sorted' | 'raw' | None"""
            if is_sorter(e):
                return 'sorted'
            if B & set(names_in(e)):
                return 'raw'
            if depth < 3:
                for nm in names_in(e):
                    for d in defs.get(nm, []):
                        r = b_derived(d, depth + 1)
                        if r:
                            return r
            return None
        parents = {}
        for x in ast.walk(f):
            for c in ast.iter_child_nodes(x):
                parents[c] = x
        for x in ast.walk(f):
            if not (isinstance(x, ast.Subscript) and isinstance(x.value, ast.Name) and
                    x.value.id in A and isinstance(x.slice, ast.Name) and
                    isinstance(x.ctx, ast.Load)):
                continue
            iv = x.slice.id
            it = None
            p_ = parents.get(x)
            while p_ is not None and it is None:
                if isinstance(p_, (ast.ListComp, ast.GeneratorExp)):
                    for g in p_.generators:
                        if isinstance(g.target, ast.Name) and g.target.id == iv:
                            it = g.iter
                elif isinstance(p_, ast.For) and isinstance(p_.target, ast.Name) and \
                        p_.target.id == iv:
                    it = p_.iter
                p_ = parents.get(p_)
            if it is None:
                continue
            kind = b_derived(it)
            if kind is None:
                continue
            n += 1
            rep.instance('AXES-parallel-sort', {'function': qn, 'gather': unparse(x),
                                                'index_source': unparse(it)[:60], 'kind': kind})
            if kind == 'raw':
                rep.violation('AXES-parallel-sort', m, qn, 'forward-permutation',
                              '`%s` for `%s` in `%s` re-orders the axes of a with the axes of b '
                              'themselves; the re-ordering that brings the axes of b to '
                              'range(rank) is their argsort: the contracted axis pairs are '
                              'mismatched unless the permutation is an involution'
                              % (unparse(x), iv, unparse(it)[:60]), x.lineno)
    return n


# ------------------------------------------------------------------ SPLICE-descending
def check_splice_order(prog, rep):
    """SPLICE-descending: `X[v : v + 1] = seq` replaces ONE entry by len(seq) entries and shifts
    everything behind it. Inside `for v in it:` with the loop variable itself as position, the
    positions still to come are only valid if they lie IN FRONT of the ones already replaced: the
    iterable is `reversed(..)` / `sorted(.., reverse=True)`. (A separately advanced running
    position, as in _split_legs_worker, is a different and correct idiom.)"""
    n = 0
    for rel in (NPC, 'tenpy/linalg/charges.py'):
        m = prog.module(rel)
        for q, f in m.functions.items():
            for lp in ast.walk(f):
                if not (isinstance(lp, ast.For) and isinstance(lp.target, ast.Name)):
                    continue
                v = lp.target.id
                for st in ast.walk(lp):
                    if not isinstance(st, ast.Assign):
                        continue
                    for t in st.targets:
                        if isinstance(t, ast.Subscript) and isinstance(t.slice, ast.Slice) and \
                                t.slice.lower is not None and t.slice.upper is not None and \
                                unparse(t.slice.lower) == v and \
                                unparse(t.slice.upper).replace(' ', '') == v + '+1' and \
                                not (isinstance(st.value, (ast.List, ast.Tuple)) and
                                     len(st.value.elts) == 1):
                            n += 1
                            it = lp.iter
                            desc = isinstance(it, ast.Call) and (
                                call_name(it) == 'reversed' or (call_name(it) == 'sorted' and any(
                                    k.arg == 'reverse' and isinstance(k.value, ast.Constant) and
                                    k.value.value is True for k in it.keywords))) or (
                                isinstance(it, ast.Subscript) and isinstance(it.slice, ast.Slice)
                                and it.slice.lower is None and it.slice.upper is None and
                                it.slice.step is not None and unparse(it.slice.step) == '-1')
                            rep.instance('SPLICE-descending', {'function': q, 'splice': unparse(t),
                                                               'iterable': unparse(it)[:50],
                                                               'descending': desc})
                            if not desc:
                                rep.violation('SPLICE-descending', m, q, 'ascending-splice:' +
                                              unparse(t.value),
                                              '`%s` replaces one entry by several inside `for %s '
                                              'in %s`: with ascending positions every later '
                                              'position is shifted by the entries already '
                                              'inserted (wrong legs / labels when more than one '
                                              'pipe is split)' % (key_text(st)[:60], v,
                                                                  unparse(it)[:40]), st.lineno)
    return n


# ------------------------------------------------------------------ AXIS-default-order-free
def check_default_axes_order_free(prog, rep):
    """AXIS-default-order-free: the documented default position of a combined leg is "the position
    of its first leg, not counting legs absorbed into pipes in front of it" -- a function of the
    LEG NUMBERS only. The default computed in _combine_legs_new_axes therefore must not use the
    position of a group inside the argument `combine_legs` (an enumerate index) as a value: that is
    only right when the caller lists the groups in ascending order of their first leg."""
    m = prog.module(NPC)
    f = m.func('Array._combine_legs_new_axes')
    n = 0
    for br in ast.walk(f):
        if not (isinstance(br, ast.If) and unparse(br.test) == 'new_axes is None'):
            continue
        n += 1
        bad = None
        for node in ast.walk(ast.Module(body=br.body, type_ignores=[])):
            gens = node.generators if isinstance(node, (ast.ListComp, ast.GeneratorExp)) else (
                [node] if isinstance(node, ast.For) else [])
            for g in gens:
                it = g.iter
                if isinstance(it, ast.Call) and call_name(it) == 'enumerate' and it.args and \
                        unparse(it.args[0]) == 'combine_legs' and isinstance(
                            g.target, ast.Tuple) and isinstance(g.target.elts[0], ast.Name):
                    idx = g.target.elts[0].id
                    body = [node.elt] if isinstance(node, (ast.ListComp, ast.GeneratorExp)) \
                        else node.body
                    for b in body:
                        for x in ast.walk(b):
                            if isinstance(x, ast.Name) and x.id == idx and not isinstance(
                                    parent(x), ast.Subscript):
                                bad = x
        rep.instance('AXIS-default-order-free', {'function': 'Array._combine_legs_new_axes',
                                                 'uses_group_position': bad is not None})
        if bad is not None:
            rep.violation('AXIS-default-order-free', m, 'Array._combine_legs_new_axes',
                          'group-position-as-value',
                          'the default `new_axes` uses the position `%s` of a group inside '
                          '`combine_legs` as a value: groups listed in another order than their '
                          'first legs get other (even equal) positions than documented' % bad.id,
                          bad.lineno)
    return n
