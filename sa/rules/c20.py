"""C20 — caches and event dispatch: synchronisation and coupled-update discipline (R-SYNC,
R-COUPLED/DictCache, EventHandler rules). Decides the structural necessary conditions; does not
decide linearizability over schedules."""
import ast

from ..cfg import CFG
from ..core import (AnalysisError, depends_on, dotted, is_self_attr, key_text, kwarg, local_defs,
                    method_calls, names_in, params, stmt_calls, stmts_of, unparse, body_nodes,
                    assigned_targets, parent)
from ..inline import inline_helpers
from ..normal import inline_temps, unroll_literal_loops
from ..pattern import find, guards_of, pmatch

THREAD = 'tenpy/tools/thread.py'
CACHE = 'tenpy/tools/cache.py'
EVENTS = 'tenpy/tools/events.py'


def _is_tasks(node):
    return is_self_attr(node, 'tasks')


def _calls_named(stmt, dotted_name):
    return [c for c in stmt_calls(stmt) if dotted(c.func) == dotted_name]


def check_worker(prog, rep):
    m = prog.module(THREAD)
    rep.unit(m)
    run = m.func('Worker.run')
    cfg = CFG(run)
    # --- every successful tasks.get is followed by task_done on every path (also exceptional)
    gets = []
    for st in stmts_of(run):
        for c in _calls_named(st, 'self.tasks.get'):
            gets.append((st, c))
    if not gets:
        raise AnalysisError('Worker.run: no self.tasks.get call found')

    def is_done(n):
        return n.stmt is not None and bool(_calls_named(n.stmt, 'self.tasks.task_done'))

    for st, c in gets:
        desc = {'function': 'Worker.run', 'get': key_text(st)}
        rep.instance('SYNC-get-task_done', desc)
        bad = None
        for n in cfg.nodes_of(st):
            # start from the *normal* successors (an exceptional edge = get raised, no task)
            starts = cfg.normal_succ(n)
            seen = set()
            todo = list(starts)
            while todo:
                x = todo.pop()
                if x.id in seen:
                    continue
                seen.add(x.id)
                if is_done(x):
                    continue
                if x is cfg.exit or x is cfg.raise_ or x is n:
                    bad = x
                    break
                todo.extend(x.succ)
        if bad is not None:
            where = 'the next get' if bad.stmt is not None else bad.kind
            rep.violation('SYNC-get-task_done', m, 'Worker.run', 'get-without-task_done',
                          'a task obtained by `%s` can reach %s without `tasks.task_done()`: '
                          '`join_tasks()` would block forever' % (key_text(st), where), st.lineno)
        # --- blocking get needs a timeout unless guarded by `not tasks.empty()` loop
        rep.instance('SYNC-timeout', {'function': 'Worker.run', 'call': key_text(st)})
        if kwarg(c, 'timeout') is None and not (kwarg(c, 'block') is not None
                                                 and kwarg(c, 'block').value is False):
            guarded = False
            p = parent(st)
            while p is not None and p is not run:
                if isinstance(p, ast.While) and 'empty' in unparse(p.test):
                    guarded = True
                p = parent(p)
            if not guarded:
                rep.violation('SYNC-timeout', m, 'Worker.run', 'get-without-timeout',
                              'blocking `tasks.get` without timeout: the worker can never '
                              'observe `exit` and `__exit__` deadlocks in join()', st.lineno)
    # --- the result of a task is published before the task is signalled as done: join_tasks()
    # returns as soon as task_done() ran, and callers then read return_dict[return_key]
    a_ = m.func('Worker.put_task').args
    rd = [x.arg for x in a_.args + a_.kwonlyargs if 'dict' in x.arg]
    if not rd:
        raise AnalysisError('Worker.put_task: no return-dict parameter')
    stores = [st for st in stmts_of(run) if isinstance(st, ast.Assign) and isinstance(
        st.targets[0], ast.Subscript) and isinstance(st.targets[0].value, ast.Name) and
        st.targets[0].value.id.split('__')[0] == rd[0]]   # (locals of an inlined helper: name__helperN)
    if not stores:
        raise AnalysisError('Worker.run: the store into %s was not found' % rd[0])

    def is_get(n):
        return n.stmt is not None and bool(_calls_named(n.stmt, 'self.tasks.get')) and \
            not isinstance(n.stmt, (ast.While, ast.If, ast.Try, ast.For))
    done_nodes = [n for n in cfg.nodes if is_done(n) and not isinstance(
        n.stmt, (ast.While, ast.If, ast.Try, ast.For))]
    for st in stores:
        rep.instance('SYNC-publish-before-done', {'function': 'Worker.run',
                                                  'store': key_text(st)})
        starts = []
        for n in done_nodes:
            starts.extend(n.succ)
        r = cfg.reachable_from(starts, blocked=is_get)
        if any(x in r for x in cfg.nodes_of(st)):
            rep.violation('SYNC-publish-before-done', m, 'Worker.run', 'store-after-task_done',
                          '`%s` can run after `tasks.task_done()` of the same task: '
                          '`join_tasks()` may return before the result is stored, and '
                          'ThreadedStorage.load then finds no value (or a late store overwrites '
                          'a newer one)' % key_text(st), st.lineno)
    # --- loop re-checks exit flag before each blocking get
    rep.instance('SYNC-exit-check', {'function': 'Worker.run'})
    timed_gets = [st for st, c in gets if kwarg(c, 'timeout') is not None]
    for st in timed_gets:
        loop = parent(st)
        while loop is not None and not isinstance(loop, (ast.While, ast.For)):
            loop = parent(loop)
        ok = False
        if loop is not None:
            for s2 in ast.walk(loop):
                if isinstance(s2, ast.If) and 'self.exit.is_set()' in unparse(s2.test):
                    if any(isinstance(x, (ast.Return, ast.Break)) for x in ast.walk(s2)):
                        ok = True
            if isinstance(loop, ast.While) and 'self.exit.is_set()' in unparse(loop.test):
                ok = True
        if not ok:
            rep.violation('SYNC-exit-check', m, 'Worker.run', 'loop-ignores-exit',
                          'the task loop does not leave when `self.exit` is set', st.lineno)
    # --- failure path: handler of the outer try sets exit; finally drains the queue
    rep.instance('SYNC-fail-path', {'function': 'Worker.run'})
    outer = [s for s in run.body if isinstance(s, ast.Try)]
    ok_set = False
    ok_drain = False
    for t in outer:
        for h in t.handlers:
            if any(dotted(c.func) == 'self.exit.set' for c in ast.walk(h)
                   if isinstance(c, ast.Call)):
                ok_set = True
        for s in t.finalbody:
            for w in ast.walk(s):
                if isinstance(w, ast.While) and _has_call(w, 'self.tasks.get') and _has_call(
                        w, 'self.tasks.task_done'):
                    ok_drain = True
    if not ok_set:
        rep.violation('SYNC-fail-path', m, 'Worker.run', 'no-exit-set-on-exception',
                      'an exception in the worker does not set `self.exit`: the main thread keeps '
                      'queueing / joining (a failing worker must surface as WorkerDied)',
                      run.lineno)
    if not ok_drain:
        rep.violation('SYNC-fail-path', m, 'Worker.run', 'no-drain-on-exit',
                      'pending tasks are not drained (get + task_done) when the worker ends: '
                      '`tasks.join()` in the main thread never returns', run.lineno)
    # --- __exit__: exit.set() before join()
    ex = m.func('Worker.__exit__')
    rep.instance('SYNC-exit-order', {'function': 'Worker.__exit__'})
    cfg2 = CFG(ex)
    joins = [s for s in stmts_of(ex) if _calls_named(s, 'self.worker_thread.join')]
    for s in joins:
        if not cfg2.dominators_like_before(
                s, lambda n: bool(_calls_named(n.stmt, 'self.exit.set'))):
            rep.violation('SYNC-exit-order', m, 'Worker.__exit__', 'join-before-exit-set',
                          '`worker_thread.join()` is reachable without `self.exit.set()` first: '
                          'closing hangs', s.lineno)
    if not joins:
        rep.violation('SYNC-exit-order', m, 'Worker.__exit__', 'no-join',
                      '__exit__ does not join the worker thread', ex.lineno)
    # --- put_task: liveness test before every blocking put, put has timeout
    pt = m.func('Worker.put_task')
    cfg3 = CFG(pt)
    puts = [s for s in stmts_of(pt) if _calls_named(s, 'self.tasks.put')]
    if not puts:
        raise AnalysisError('Worker.put_task: no self.tasks.put')
    for s in puts:
        rep.instance('SYNC-timeout', {'function': 'Worker.put_task', 'call': key_text(s)})
        c = _calls_named(s, 'self.tasks.put')[0]
        if kwarg(c, 'timeout') is None:
            rep.violation('SYNC-timeout', m, 'Worker.put_task', 'put-without-timeout',
                          'blocking `tasks.put` without timeout: a dead worker with a full queue '
                          'hangs the caller instead of raising WorkerDied', s.lineno)
        rep.instance('SYNC-alive-check', {'function': 'Worker.put_task'})
        # liveness check must be re-done on every retry: no path put(timeout) -> put without check
        for n in cfg3.nodes_of(s):
            r = cfg3.reachable_from(
                [n], blocked=lambda x: x.stmt is not None and bool(
                    _calls_named(x.stmt, 'self._test_worker_alive')))
            if n in r:
                rep.violation('SYNC-alive-check', m, 'Worker.put_task', 'retry-without-alive-check',
                              'the retry loop can call `tasks.put` again without '
                              '`_test_worker_alive()`: hangs forever once the worker died',
                              s.lineno)
        if not cfg3.dominators_like_before(
                s, lambda n: bool(_calls_named(n.stmt, 'self._test_worker_alive'))):
            rep.violation('SYNC-alive-check', m, 'Worker.put_task', 'put-without-alive-check',
                          '`tasks.put` reachable without `_test_worker_alive()`', s.lineno)
    # --- join_tasks: alive check before and after tasks.join()
    jt = m.func('Worker.join_tasks')
    cfg4 = CFG(jt)
    js = [s for s in stmts_of(jt) if _calls_named(s, 'self.tasks.join')]
    if not js:
        raise AnalysisError('Worker.join_tasks: no self.tasks.join')
    for s in js:
        rep.instance('SYNC-alive-check', {'function': 'Worker.join_tasks'})
        alive = lambda n: bool(_calls_named(n.stmt, 'self._test_worker_alive'))  # noqa: E731
        if not cfg4.dominators_like_before(s, alive):
            rep.violation('SYNC-alive-check', m, 'Worker.join_tasks', 'join-without-alive-check',
                          '`tasks.join()` without a preceding `_test_worker_alive()`', s.lineno)
        if cfg4.exit_reachable_avoiding(s, alive):
            rep.violation('SYNC-alive-check', m, 'Worker.join_tasks', 'no-alive-check-after-join',
                          'after `tasks.join()` the worker state is not re-checked: tasks drained '
                          'by a dying worker look like completed work (error swallowed)', s.lineno)
    # --- _test_worker_alive raises WorkerDied when exit set or thread dead
    ta = m.func('Worker._test_worker_alive')
    rep.instance('SYNC-alive-def', {'function': 'Worker._test_worker_alive'})
    ok = False
    for s in ast.walk(ta):
        if isinstance(s, ast.If):
            t = unparse(s.test)
            if 'self.exit.is_set()' in t and 'is_alive()' in t and isinstance(s.test, ast.BoolOp) \
                    and isinstance(s.test.op, ast.Or):
                if any(isinstance(x, ast.Raise) for x in s.body):
                    ok = True
    if not ok:
        rep.violation('SYNC-alive-def', m, 'Worker._test_worker_alive', 'alive-test',
                      '`_test_worker_alive` does not raise when `exit` is set OR the thread is '
                      'dead', ta.lineno)
    # run(): result stored only if return_dict is not None, keyed by return_key
    rep.instance('SYNC-result-key', {'function': 'Worker.run'})
    base = lambda x: (x or '').split('__')[0]      # locals of an inlined helper: name__helperN
    stores = [s for s in stmts_of(run) if isinstance(s, ast.Assign) and any(
        isinstance(t, ast.Subscript) and base(dotted(t.value)) == 'return_dict' for t in s.targets)]
    fct_names = sorted({x.id for x in ast.walk(run) if isinstance(x, ast.Name) and
                        base(x.id) == 'fct'}) or ['fct']
    for s in stores:
        t = s.targets[0]
        if base(unparse(t.slice)) != 'return_key' or not depends_on(run, s.value, fct_names):
            rep.violation('SYNC-result-key', m, 'Worker.run', 'result-store',
                          'the task result must be stored as return_dict[return_key] = fct(...)',
                          s.lineno)
    if not stores:
        rep.violation('SYNC-result-key', m, 'Worker.run', 'result-store-missing',
                      'task results are never written to return_dict', run.lineno)


def _has_call(node, dn):
    return any(isinstance(c, ast.Call) and dotted(c.func) == dn for c in ast.walk(node))


def _namedtuple_fields(m, name):
    for st in m.tree.body:
        if isinstance(st, ast.Assign) and unparse(st.targets[0]) == name and isinstance(
                st.value, ast.Call) and dotted(st.value.func) in ('namedtuple',
                                                                   'collections.namedtuple'):
            a = st.value.args[1] if len(st.value.args) > 1 else None
            if isinstance(a, ast.Constant) and isinstance(a.value, str):
                return a.value.replace(',', ' ').split()
            if isinstance(a, (ast.List, ast.Tuple)):
                return [e.value for e in a.elts if isinstance(e, ast.Constant)]
    raise AnalysisError('namedtuple %s not found' % name)


class _Iteration:
    """one iteration construct over a collection: a `for` statement or a comprehension clause"""

    def __init__(self, target, iter_, body, stmt, skips):
        self.target, self.iter, self.body, self.stmt, self.skips = target, iter_, body, stmt, skips
        self.lineno = stmt.lineno


def _iterations(f):
    out = []
    for s in ast.walk(f):
        if isinstance(s, ast.For):
            skips = [x for b in s.body for x in ast.walk(b)
                     if isinstance(x, (ast.Break, ast.Continue, ast.Return))]
            out.append(_Iteration(s.target, s.iter, s.body, s, skips))
        elif isinstance(s, (ast.ListComp, ast.GeneratorExp, ast.SetComp)):
            st = s
            while not isinstance(st, ast.stmt):
                st = parent(st)
            g = s.generators[0]
            out.append(_Iteration(g.target, g.iter, [s.elt], st, list(g.ifs)))
    return out


def check_threaded_storage(prog, rep):
    m = prog.module(CACHE)
    rep.unit(m)
    cls = m.cls('ThreadedStorage')
    meths = {f.name: f for f in cls.body if isinstance(f, ast.FunctionDef)}
    for need in ('load', 'preload', 'save', 'delete', 'close', '__exit__', 'subcontainer'):
        if need not in meths:
            raise AnalysisError('ThreadedStorage.%s vanished' % need)
    # private helpers (extracted common code) are analysed as part of their callers
    inl_all = {}
    for name in list(meths):
        g, inl = inline_helpers(meths[name], 'ThreadedStorage.' + name, m, prog)
        if inl:
            inl_all[name] = inl
        # normal form: aliases of attributes (`worker = self.worker`) and named conditions are
        # expanded, loops over a literal tuple of attributes are written out
        meths[name] = inline_temps(unroll_literal_loops(g if inl else meths[name]))
    rep.extra['threaded_storage_inlined_helpers'] = inl_all
    # (1) add(k) to _waiting_for_load paired with put_task(disk_storage.load, k, return_dict=_loaded, return_key=k)
    for name, f in meths.items():
        q = 'ThreadedStorage.' + name
        for st in stmts_of(f):
            for c in _calls_named(st, 'self._waiting_for_load.add'):
                key = unparse(c.args[0]) if c.args else '?'
                rep.instance('TS-wait-load-pair', {'function': q, 'key': key})
                # a second load task for a key that is still in flight writes _loaded[key] after
                # the first result was consumed: no load is queued while the key is waiting
                gs_ = {(t, pol) for t, pol, _ in guards_of(f, st)}
                rep.instance('TS-no-duplicate-load', {'function': q, 'key': key})
                if ('%s in self._waiting_for_load' % key, False) not in gs_:
                    rep.violation('TS-no-duplicate-load', m, q, 'duplicate-load:' + key,
                                  '`%s` queues a load for `%s` without having excluded that one '
                                  'is already in flight (`%s not in self._waiting_for_load`): '
                                  'the duplicate task re-inserts a stale _loaded[%s] after the '
                                  'first result was consumed' % (key_text(st), key, key, key),
                                  st.lineno)
                blk = _sibling_block(st)
                ok = False
                for s2 in blk[blk.index(st) + 1:]:
                    for c2 in _calls_named(s2, 'self.worker.put_task'):
                        if c2.args and dotted(c2.args[0]) == 'self.disk_storage.load' and \
                                len(c2.args) >= 2 and unparse(c2.args[1]) == key and \
                                dotted(kwarg(c2, 'return_dict') or ast.Constant(0)) == \
                                'self._loaded' and unparse(kwarg(c2, 'return_key')) == key:
                            ok = True
                if not ok:
                    rep.violation('TS-wait-load-pair', m, q, 'waiting-add-without-load-task',
                                  '`_waiting_for_load.add(%s)` is not followed by '
                                  '`put_task(self.disk_storage.load, %s, return_dict=self._loaded, '
                                  'return_key=%s)`: a later load() waits for a result that never '
                                  'arrives (AssertionError/KeyError or stale value)' %
                                  (key, key, key), st.lineno)
        # (1b) a key leaves _waiting_for_load / _loaded only when its load task has finished:
        # the worker writes _loaded[key] whenever it gets to the task, so forgetting a pending
        # key leaves a stale entry behind that later loads / saves trip over
        cfg_f = None
        for st in stmts_of(f):
            rem = [c for c in ast.walk(st) if isinstance(c, ast.Call) and isinstance(
                c.func, ast.Attribute) and dotted(c.func.value) == 'self._waiting_for_load' and
                c.func.attr in ('remove', 'discard', 'clear', 'pop', 'difference_update')]
            if isinstance(st, (ast.If, ast.For, ast.While, ast.With, ast.Try)) or not rem:
                continue
            if cfg_f is None:
                cfg_f = CFG(f)
            key = unparse(rem[0].args[0]) if rem[0].args else None

            def finished(n, key=key):
                if n.stmt is None or isinstance(n.stmt, (ast.If, ast.For, ast.While, ast.With,
                                                         ast.Try)):
                    return False
                if _calls_named(n.stmt, 'self.worker.join_tasks') or \
                        _calls_named(n.stmt, 'self.worker.__exit__'):
                    return True
                return isinstance(n.stmt, ast.Assert) and key is not None and \
                    unparse(n.stmt.test) == '%s in self._loaded' % key
            ok = cfg_f.dominators_like_before(st, finished)
            rep.instance('TS-forget-pending', {'function': q, 'removal': key_text(st),
                                               'after_completion': ok})
            if not ok:
                rep.violation('TS-forget-pending', m, q, 'forgets-pending:' + (key or '*'),
                              '`%s` can run while the load task for the key is still queued '
                              '(no join_tasks() / worker exit / `assert key in self._loaded` '
                              'before it): the worker later stores the old value in _loaded, a '
                              'following save() does not replace it and load() fails its '
                              'assertion or returns the stale value' % key_text(st), st.lineno)
        # (2) no direct disk operation from the caller thread
        if name in ('load', 'preload', 'save', 'delete'):
            rep.instance('TS-fifo-only', {'function': q})
            for c in body_calls(f):
                d = dotted(c.func) or ''
                if d.startswith('self.disk_storage.') and d.split('.')[-1] in (
                        'load', 'save', 'delete', 'preload'):
                    rep.violation('TS-fifo-only', m, q, 'direct-' + d.split('.')[-1],
                                  '`%s(...)` is called in the caller thread, bypassing the FIFO '
                                  'worker: it can overtake queued saves/deletes of the same key' % d,
                                  c.lineno)
    # (3) each of save/delete/load(miss)/preload(miss) queues the matching disk op
    for name, op in (('save', 'save'), ('delete', 'delete')):
        f = meths[name]
        q = 'ThreadedStorage.' + name
        rep.instance('TS-op-queued', {'function': q, 'op': op})
        cfg = CFG(f)
        pm = params(f)
        found = False
        for st in stmts_of(f):
            for c in _calls_named(st, 'self.worker.put_task'):
                if c.args and dotted(c.args[0]) == 'self.disk_storage.' + op:
                    found = True
                    # args are the parameters in order
                    rest = [unparse(a) for a in c.args[1:]]
                    if rest != pm[1:]:
                        rep.violation('TS-op-queued', m, q, 'task-args',
                                      'queued `disk_storage.%s` gets arguments %s instead of %s' %
                                      (op, rest, pm[1:]), st.lineno)
        # on every normal path
        if not found or _exit_without(cfg, lambda n: any(
                c.args and dotted(c.args[0]) == 'self.disk_storage.' + op
                for c in _calls_named(n.stmt, 'self.worker.put_task'))):
            rep.violation('TS-op-queued', m, q, 'op-not-queued',
                          'a path through `%s` returns without queueing `disk_storage.%s`: the '
                          'write/delete is lost' % (name, op), f.lineno)
    # (4) load(): read of _loaded[key] dominated by join_tasks() or membership check
    f = meths['load']
    cfg = CFG(f)
    reads = []
    for st in stmts_of(f):
        for n in ast.walk(st) if not isinstance(st, (ast.If, ast.While, ast.For)) else []:
            if isinstance(n, ast.Subscript) and dotted(n.value) == 'self._loaded' and isinstance(
                    n.ctx, ast.Load):
                reads.append(st)
    if not reads:
        raise AnalysisError('ThreadedStorage.load: no read of self._loaded[key]')
    for st in reads:
        rep.instance('TS-read-after-join', {'function': 'ThreadedStorage.load',
                                            'read': key_text(st)})

        def sync(n):
            s = n.stmt
            if isinstance(s, ast.If):
                t = s.test
                if isinstance(t, ast.Compare) and len(t.ops) == 1 and isinstance(
                        t.ops[0], ast.NotIn) and dotted(t.comparators[0]) == 'self._loaded' \
                        and not s.orelse:
                    # body must join on all its paths
                    return any(_calls_named(b, 'self.worker.join_tasks') for b in s.body)
            return bool(_calls_named(s, 'self.worker.join_tasks')) and not isinstance(
                s, (ast.If, ast.While))

        if not cfg.dominators_like_before(st, sync):
            rep.violation('TS-read-after-join', m, 'ThreadedStorage.load', 'read-without-join',
                          '`self._loaded[key]` is read on a path that neither joined the worker '
                          'nor checked `key in self._loaded`: race with the loading thread',
                          st.lineno)
    # (5) load(): _waiting_for_load.remove(key) paired with del _loaded[key]
    rep.instance('TS-consume-pair', {'function': 'ThreadedStorage.load'})
    rem = [s for s in stmts_of(f) if _calls_named(s, 'self._waiting_for_load.remove')
           or _calls_named(s, 'self._waiting_for_load.discard')]
    dels = [s for s in stmts_of(f) if (isinstance(s, ast.Delete) and any(
        isinstance(t, ast.Subscript) and dotted(t.value) == 'self._loaded' for t in s.targets))
        or _calls_named(s, 'self._loaded.pop')]
    if not rem or not dels:
        rep.violation('TS-consume-pair', m, 'ThreadedStorage.load', 'consume-pair',
                      'load() must remove the key from `_waiting_for_load` and from `_loaded` '
                      'together; otherwise the next load returns a stale value or asserts',
                      f.lineno)
    else:
        for s in rem + dels:
            if _exit_without(cfg, lambda n, s=s: n.stmt is s):
                rep.violation('TS-consume-pair', m, 'ThreadedStorage.load', 'consume-pair-path',
                              '`%s` is skipped on some path through load()' % key_text(s),
                              s.lineno)
    # (6) save(): write into _loaded from the caller thread only after join_tasks()
    f = meths['save']
    cfg = CFG(f)
    rep.instance('TS-save-pending-load', {'function': 'ThreadedStorage.save'})
    handled = False
    for st in stmts_of(f):
        if isinstance(st, ast.If) and 'self._waiting_for_load' in unparse(st.test):
            # the guard must not be narrower than `key in self._waiting_for_load`
            t = st.test
            narrowed = isinstance(t, ast.BoolOp) and isinstance(t.op, ast.And)
            if not narrowed and not (isinstance(t, ast.Compare) and isinstance(
                    t.ops[0], ast.In)) and not (isinstance(t, ast.BoolOp) and isinstance(
                        t.op, ast.Or)):
                narrowed = True
            if narrowed:
                rep.violation('TS-save-pending-load', m, 'ThreadedStorage.save',
                              'pending-load-guard-narrowed',
                              'the update of `_loaded[key]` is guarded by `%s`, which is narrower '
                              'than `key in self._waiting_for_load`: when the (pre)load has '
                              'already completed the old value stays in `_loaded` and the next '
                              'load returns it' % unparse(t), st.lineno)
            j = any(_calls_named(b, 'self.worker.join_tasks') for b in st.body)
            w = [b for b in st.body if isinstance(b, ast.Assign) and any(
                isinstance(t, ast.Subscript) and dotted(t.value) == 'self._loaded'
                for t in b.targets)]
            if j and w:
                handled = True
                for b in w:
                    if not cfg.dominators_like_before(
                            b, lambda n: not isinstance(n.stmt, (ast.If, ast.While)) and bool(
                                _calls_named(n.stmt, 'self.worker.join_tasks'))):
                        handled = False
                    if unparse(b.value) != params(f)[2]:
                        handled = False
    if not handled:
        rep.violation('TS-save-pending-load', m, 'ThreadedStorage.save', 'pending-load-not-updated',
                      'save(key) while a (pre)load of key is outstanding must join the worker and '
                      'then replace `_loaded[key]` by the new value; otherwise the next load '
                      'returns the old value', f.lineno)
    # (7) close/__exit__: stop the worker before closing the disk storage, then clear
    for name in ('close', '__exit__'):
        f = meths[name]
        q = 'ThreadedStorage.' + name
        rep.instance('TS-close-order', {'function': q})
        cfg = CFG(f)
        closes = [s for s in stmts_of(f) if _calls_named(s, 'self.disk_storage.close')]
        if not closes:
            rep.violation('TS-close-order', m, q, 'no-disk-close',
                          'the disk storage is never closed', f.lineno)
        for s in closes:
            if not cfg.dominators_like_before(
                    s, lambda n: bool(_calls_named(n.stmt, 'self.worker.__exit__'))):
                rep.violation('TS-close-order', m, q, 'disk-closed-before-worker-stopped',
                              'the disk storage is closed while the worker may still execute '
                              'queued tasks on it', s.lineno)
    # (8) subcontainer: same worker (one FIFO), derived disk storage
    f = meths['subcontainer']
    rep.instance('TS-subcontainer', {'function': 'ThreadedStorage.subcontainer'})
    ok = False
    for c in body_calls(f):
        if dotted(c.func) in ('ThreadedStorage', 'self.__class__', 'type(self)') or \
                unparse(c.func) == 'type(self)':
            if len(c.args) == 2 and dotted(c.args[0]) == 'self.worker' and isinstance(
                    c.args[1], ast.Call) and dotted(
                        c.args[1].func) == 'self.disk_storage.subcontainer' and depends_on(
                            f, c.args[1], [params(f)[1]]):
                ok = True
    if not ok:
        rep.violation('TS-subcontainer', m, 'ThreadedStorage.subcontainer', 'subcontainer',
                      'sub-storage must share the worker and wrap '
                      '`self.disk_storage.subcontainer(name)`; otherwise sub-caches are not '
                      'isolated or get a second un-ordered worker', f.lineno)


def body_calls(f):
    return [n for n in body_nodes(f) if isinstance(n, ast.Call)]


def _sibling_block(st):
    p = parent(st)
    for field in ('body', 'orelse', 'finalbody'):
        blk = getattr(p, field, None)
        if isinstance(blk, list) and st in blk:
            return blk
    return [st]


def _exit_without(cfg, pred):
    """normal EXIT reachable from ENTRY without passing a statement node satisfying pred"""
    r = cfg.reachable_from([cfg.entry], blocked=lambda n: n.stmt is not None and pred(n))
    return cfg.exit in r


def check_dictcache(prog, rep):
    m = prog.module(CACHE)
    cls = m.cls('DictCache')
    meths = {f.name: f for f in cls.body if isinstance(f, ast.FunctionDef)}
    for need in ('__getitem__', '__setitem__', '__delitem__', '__contains__', '__iter__',
                 '__len__', 'get', 'set_short_term_keys', 'preload', 'create_subcache'):
        if need not in meths:
            raise AnalysisError('DictCache.%s vanished' % need)
    # places a value can be returned from by __getitem__
    gi = meths['__getitem__']
    places = set()
    for n in body_nodes(gi):
        if isinstance(n, ast.Return) and n.value is not None:
            for x in ast.walk(n.value):
                if isinstance(x, ast.Subscript) and is_self_attr(x.value):
                    places.add(x.value.attr)
        if isinstance(n, ast.Call) and isinstance(n.func, ast.Attribute) and n.func.attr == 'load' \
                and is_self_attr(n.func.value):
            places.add(n.func.value.attr)
    if 'long_term_storage' not in places:
        raise AnalysisError('DictCache.__getitem__: storage load not found')
    key_d = params(meths['__delitem__'])[1]
    key_s, val_s = params(meths['__setitem__'])[1:3]
    for place in sorted(places):
        # delete must invalidate each place
        rep.instance('DC-coupled-delete', {'place': place})
        f = meths['__delitem__']
        ok = False
        for n in body_nodes(f):
            if isinstance(n, ast.Delete):
                for t in n.targets:
                    if isinstance(t, ast.Subscript) and is_self_attr(t.value, place) and \
                            unparse(t.slice) == key_d:
                        ok = True
            if isinstance(n, ast.Call) and isinstance(n.func, ast.Attribute) and \
                    is_self_attr(n.func.value, place) and n.func.attr in ('pop', 'delete') and \
                    n.args and unparse(n.args[0]) == key_d:
                ok = True
        if not ok:
            rep.violation('DC-coupled-delete', m, 'DictCache.__delitem__', 'stale-' + place,
                          '`__getitem__` can return a value from `self.%s` but `__delitem__` does '
                          'not remove the key there: after `del c[k]`, `c[k]` still returns the '
                          'deleted value instead of raising KeyError' % place, f.lineno)
        rep.instance('DC-coupled-set', {'place': place})
        f = meths['__setitem__']
        ok = False
        for n in body_nodes(f):
            if isinstance(n, ast.Assign):
                for t in n.targets:
                    if isinstance(t, ast.Subscript) and is_self_attr(t.value, place) and \
                            unparse(t.slice) == key_s and unparse(n.value) == val_s:
                        ok = True
            if isinstance(n, ast.Call) and isinstance(n.func, ast.Attribute) and \
                    is_self_attr(n.func.value, place) and n.func.attr in ('save', ) and \
                    [unparse(a) for a in n.args] == [key_s, val_s]:
                ok = True
            if isinstance(n, ast.Call) and isinstance(n.func, ast.Attribute) and \
                    is_self_attr(n.func.value, place) and n.func.attr == 'pop' and n.args and \
                    unparse(n.args[0]) == key_s:
                ok = True
        if not ok:
            rep.violation('DC-coupled-set', m, 'DictCache.__setitem__', 'stale-' + place,
                          '`__setitem__` does not update `self.%s`, from which `__getitem__` '
                          'returns values: reads return an outdated value' % place, f.lineno)
    # __setitem__: storage save unconditional, key registered
    f = meths['__setitem__']
    cfg = CFG(f)
    rep.instance('DC-set-unconditional', {})
    for what, pred in (('long_term_keys.add', lambda n: bool(
            _calls_named(n.stmt, 'self.long_term_keys.add')) and not isinstance(n.stmt, ast.If)),
                       ('long_term_storage.save', lambda n: bool(
                           _calls_named(n.stmt, 'self.long_term_storage.save')) and not isinstance(
                               n.stmt, ast.If))):
        if _exit_without(cfg, pred):
            rep.violation('DC-set-unconditional', m, 'DictCache.__setitem__', 'skip-' + what,
                          'a path through `__setitem__` skips `%s`' % what, f.lineno)
    # short_term_cache write guarded by short_term_keys (memory bound) -- and *only* then
    # membership / iteration / len all refer to the same key set
    rep.instance('DC-keyset-consistent', {})
    for name in ('__contains__', '__iter__', '__len__'):
        f = meths[name]
        src = ' '.join(unparse(s) for s in f.body if not (isinstance(s, ast.Expr) and isinstance(
            s.value, ast.Constant)))
        if 'self.long_term_keys' not in src:
            rep.violation('DC-keyset-consistent', m, 'DictCache.' + name, 'keyset',
                          '`%s` does not use `self.long_term_keys`, the set that `__setitem__`/'
                          '`__delitem__` maintain' % name, f.lineno)
    # __getitem__ raises KeyError for unknown keys before loading
    f = meths['__getitem__']
    cfg = CFG(f)
    rep.instance('DC-missing-key', {})
    loads = [s for s in stmts_of(f) if _calls_named(s, 'self.long_term_storage.load')]
    for s in loads:
        def guard(n):
            st = n.stmt
            return isinstance(st, ast.If) and isinstance(st.test, ast.Compare) and isinstance(
                st.test.ops[0], ast.NotIn) and dotted(
                    st.test.comparators[0]) == 'self.long_term_keys' and any(
                        isinstance(b, ast.Raise) for b in st.body)
        if not cfg.dominators_like_before(s, guard):
            rep.violation('DC-missing-key', m, 'DictCache.__getitem__', 'no-keyerror',
                          'storage is loaded without the `key not in self.long_term_keys -> '
                          'KeyError` guard', s.lineno)
    # get(): default only for missing keys
    f = meths['get']
    rep.instance('DC-get', {})
    ok = False
    for s in f.body:
        if isinstance(s, ast.If) and isinstance(s.test, ast.Compare) and isinstance(
                s.test.ops[0], ast.NotIn) and dotted(s.test.comparators[0]) in (
                    'self.long_term_keys', 'self') and any(
                        isinstance(b, ast.Return) and unparse(b.value) == params(f)[2]
                        for b in s.body):
            ok = True
    last = f.body[-1]
    if not (ok and isinstance(last, ast.Return) and (
            '__getitem__' in unparse(last.value) or 'self[' in unparse(last.value))):
        rep.violation('DC-get', m, 'DictCache.get', 'get-default',
                      '`get` must return `default` exactly for keys not in the cache and the '
                      'stored value otherwise', f.lineno)
    # set_short_term_keys: purge everything not in keys
    f = inline_temps(meths['set_short_term_keys'])
    rep.instance('DC-short-term-purge', {'normal_form_inlined': f._inlined_names})
    pk = f.args.vararg.arg if f.args.vararg is not None else params(f)[-1]
    newkeys = ('self.short_term_keys', 'set(%s)' % pk, pk)
    ok = False
    for st in ast.walk(f):
        if not isinstance(st, ast.Delete):
            continue
        for tg in st.targets:
            e = pmatch('$$c[$k]', tg)
            if not e or not unparse(e['$$c']).endswith('short_term_cache'):
                continue
            k = e['$k']
            lp = parent(st)
            while lp is not None and not (isinstance(lp, ast.For) and unparse(lp.target) == k):
                lp = parent(lp)
            if lp is None or 'short_term_cache' not in unparse(lp.iter):
                continue
            cond = [t for t, pol, _ in guards_of(f, st) if not pol]
            for x in ast.walk(lp.iter):
                if isinstance(x, ast.comprehension):
                    for c in x.ifs:
                        ee = pmatch('$j not in $$K', c)
                        if ee and ee['$j'] == unparse(x.target):
                            cond.append('%s in %s' % (k, unparse(ee['$$K'])))
            if any(c == '%s in %s' % (k, K) for c in cond for K in newkeys):
                ok = True
    for st in ast.walk(f):      # or: the cache is rebuilt keeping only listed keys
        if isinstance(st, ast.Assign) and any(is_self_attr(t, 'short_term_cache')
                                              for t in st.targets) and \
                isinstance(st.value, ast.DictComp) and any(
                    pmatch('$j in $$K', c) and unparse(pmatch('$j in $$K', c)['$$K']) in newkeys
                    for g in st.value.generators for c in g.ifs):
            ok = True
    reb = any(isinstance(n, ast.Assign) and any(is_self_attr(t, 'short_term_keys')
                                                for t in n.targets) and
              unparse(n.value) in ('set(%s)' % pk, ) for n in body_nodes(f))
    if not (ok and reb):
        rep.violation('DC-short-term-purge', m, 'DictCache.set_short_term_keys', 'purge',
                      '`set_short_term_keys` must rebind `short_term_keys` to the new set and drop '
                      'the cached values of exactly the keys no longer listed', f.lineno)
    # create_subcache: isolated storage
    f = meths['create_subcache']
    rep.instance('DC-subcache', {})
    ok = False
    for c in body_calls(f):
        if c.args and isinstance(c.args[0], ast.Call) and dotted(
                c.args[0].func) == 'self.long_term_storage.subcontainer' and depends_on(
                    f, c.args[0], [params(f)[1]]):
            ok = True
    if not ok:
        rep.violation('DC-subcache', m, 'DictCache.create_subcache', 'shared-storage',
                      'sub-cache must be built on `self.long_term_storage.subcontainer(name)` '
                      '(isolation of sub-caches)', f.lineno)
    # Storage subclasses: subcontainer result depends on `name`, not the parent resource itself
    for cname in ('PickleStorage', 'Hdf5Storage'):
        cls2 = m.cls(cname)
        f = [x for x in cls2.body if isinstance(x, ast.FunctionDef) and x.name == 'subcontainer']
        if not f:
            continue
        f = f[0]
        rep.instance('DC-subcontainer-derived', {'class': cname})
        nm = params(f)[1]
        rets = [n for n in body_nodes(f) if isinstance(n, ast.Return) and n.value is not None]
        for r in rets:
            if not depends_on(f, r.value, [nm]):
                rep.violation('DC-subcontainer-derived', m, cname + '.subcontainer',
                              'not-derived-from-name',
                              'the returned sub-storage does not depend on `name`: sub-caches '
                              'share files/groups with the parent', r.lineno)
    # Storage.load/save/delete per class operate on the same location expression
    for cname in ('Storage', 'PickleStorage', '_NumpyStorage', 'Hdf5Storage'):
        cls2 = m.cls(cname)
        ms = {x.name: x for x in cls2.body if isinstance(x, ast.FunctionDef)}
        locs = {}
        for op in ('load', 'save', 'delete'):
            if op not in ms:
                continue
            f = ms[op]
            key = params(f)[1]
            ex = set()
            for n in body_nodes(f):
                if isinstance(n, ast.Subscript) and key in names_in(n.slice):
                    ex.add(unparse(n.value) + '[' + unparse(n.slice) + ']')
                if isinstance(n, ast.BinOp) and isinstance(n.op, ast.Div) and key in names_in(
                        n.right):
                    ex.add(unparse(n))
                if isinstance(n, ast.Call) and dotted(n.func) in ('load_from_hdf5',
                                                                   'save_to_hdf5'):
                    ex.add('self.h5gr[' + key + ']' if any(
                        unparse(a) == key for a in n.args) and any(
                            unparse(a) == 'self.h5gr' for a in n.args) else unparse(n))
            locs[op] = (ex, key)
        if len(locs) >= 2:
            rep.instance('DC-location-agree', {'class': cname, 'ops': sorted(locs)})
            norm = {op: {e.replace(k, '<key>') for e in ex} for op, (ex, k) in locs.items()}
            vals = list(norm.values())
            for op, v in norm.items():
                if not v:
                    rep.violation('DC-location-agree', m, cname + '.' + op, 'no-location',
                                  'cannot see which location `%s` touches' % op, ms[op].lineno)
            allv = set.union(*vals)
            for op, v in norm.items():
                if v and not (v <= allv and all(v & w for w in vals if w)):
                    rep.violation('DC-location-agree', m, cname + '.' + op, 'location-mismatch',
                                  '`%s` addresses %s but its siblings address %s: a value saved '
                                  'under a key is not the one loaded/deleted' %
                                  (op, sorted(v), sorted(allv - v)), ms[op].lineno)


def check_events(prog, rep):
    m = prog.module(EVENTS)
    rep.unit(m)
    # disconnect: guard of the deletion depends on the parameter
    f = m.func('EventHandler.disconnect')
    pid = params(f)[1]
    dels = [n for n in body_nodes(f) if isinstance(n, ast.Delete)
            or (isinstance(n, ast.Call) and dotted(n.func) in ('self.listeners.pop',
                                                               'self.listeners.remove'))]
    if not dels:
        # rebuilt by a comprehension filter?
        dels = [n for n in body_nodes(f) if isinstance(n, ast.Assign) and any(
            is_self_attr(t, 'listeners') for t in n.targets)]
    if not dels:
        raise AnalysisError('EventHandler.disconnect: no removal construct found')
    defs = local_defs(f)
    for d in dels:
        rep.instance('EV-disconnect-guard', {'removal': key_text(d)})
        guards = []
        p = parent(d)
        while p is not None and p is not f:
            if isinstance(p, ast.If):
                guards.append(p.test)
            p = parent(p)
        if isinstance(d, ast.Assign):
            for x in ast.walk(d.value):
                if isinstance(x, ast.comprehension):
                    guards.extend(x.ifs)
        ok = False
        for g in guards:
            for cmp_ in ast.walk(g):
                if isinstance(cmp_, ast.Compare) and len(cmp_.ops) == 1 and isinstance(
                        cmp_.ops[0], (ast.Eq, ast.NotEq, ast.Is, ast.IsNot)):
                    sides = [cmp_.left, cmp_.comparators[0]]
                    has_param = any(pid in names_in(s) for s in sides)
                    has_field = any('listener_id' in unparse(s) and pid not in names_in(s)
                                    or (isinstance(s, ast.Subscript)) for s in sides)
                    if has_param and has_field:
                        ok = True
        if not ok:
            rep.violation('EV-disconnect-guard', m, 'EventHandler.disconnect',
                          'guard-independent-of-listener_id',
                          'the condition guarding `%s` does not compare the listener\'s id with '
                          'the parameter `%s`: disconnect removes a listener other than the named '
                          'one' % (key_text(d), pid), d.lineno)
    # connect: fresh id per listener, counter incremented once, Listener gets that id
    f = m.func('EventHandler.connect')
    rep.instance('EV-connect-id', {})
    incs = [s for s in stmts_of(f) if isinstance(s, ast.AugAssign) and is_self_attr(
        s.target, '_id_counter') and isinstance(s.op, ast.Add) and unparse(s.value) == '1']
    incs += [s for s in stmts_of(f) if isinstance(s, ast.Assign) and any(
        is_self_attr(t, '_id_counter') for t in s.targets) and unparse(s.value) in (
            'self._id_counter + 1', '1 + self._id_counter', 'listener_id + 1')]
    nf = inline_temps(f)
    mk = [c for c in body_nodes(nf) if isinstance(c, ast.Call) and dotted(c.func) == 'Listener']
    fields = _namedtuple_fields(m, 'Listener')
    ok = len(incs) == 1 and len(mk) == 1
    if ok:
        c = mk[0]
        bound = dict(zip(fields, c.args))
        for k in c.keywords:
            if k.arg is not None:
                bound[k.arg] = k.value
        idarg = bound.get('listener_id')
        # the id is the counter (named temporaries resolved by the normal form, or one local)
        idtxt = unparse(idarg) if idarg is not None else ''
        if isinstance(idarg, ast.Name):
            idtxt = ' '.join(unparse(v) for v in local_defs(nf).get(idarg.id, [idarg]))
        ok = idtxt == 'self._id_counter'
        # listener appended
        defs = local_defs(nf)
        ok = ok and any(dotted(c2.func) == 'self.listeners.append' and c2.args and (
            c in ast.walk(c2) or (isinstance(c2.args[0], ast.Name) and
                                  defs.get(c2.args[0].id) == [c]))
            for c2 in body_nodes(nf) if isinstance(c2, ast.Call))
        # callback, priority, extra_kwargs forwarded to their own fields
        for fld in ('callback', 'priority', 'extra_kwargs'):
            if fld not in bound or unparse(bound[fld]) != fld:
                ok = False
        # the increment happens on every path that registers a listener
        cfg = CFG(f)
        app = [st for st in stmts_of(f) if any(
            isinstance(c2, ast.Call) and dotted(c2.func) == 'self.listeners.append'
            for c2 in ast.walk(st)) and not isinstance(st, (ast.If, ast.For, ast.While))]
        for st in app:
            before = cfg.dominators_like_before(st, lambda n: n.stmt is incs[0])
            after = not cfg.exit_reachable_avoiding(st, lambda n: n.stmt is incs[0])
            if not (before or after):
                ok = False
    if not ok:
        rep.violation('EV-connect-id', m, 'EventHandler.connect', 'id-allocation',
                      'connect must allocate `listener_id = self._id_counter`, increment the '
                      'counter exactly once and append Listener(listener_id, callback, priority, '
                      '...)', f.lineno)
    # decorator form forwards to connect with the priority
    rep.instance('EV-connect-decorator', {})
    inner = [x for x in ast.walk(f) if isinstance(x, ast.FunctionDef) and x is not f]
    okd = False
    for x in inner:
        for c in ast.walk(x):
            if isinstance(c, ast.Call) and dotted(c.func) == 'self.connect' and len(c.args) >= 2 \
                    and unparse(c.args[1]) == 'priority' or (
                        isinstance(c, ast.Call) and dotted(c.func) == 'self.connect' and
                        unparse(kwarg(c, 'priority')) == 'priority'):
                okd = True
    if inner and not okd:
        rep.violation('EV-connect-decorator', m, 'EventHandler.connect', 'decorator-priority',
                      'the decorator form of connect does not pass `priority` on', f.lineno)
    # emit / emit_until_result: _prepare_emit first, iterate self.listeners, call callback
    for name in ('emit', 'emit_until_result'):
        f = m.func('EventHandler.' + name)
        rep.instance('EV-emit-sorted', {'function': name})
        cfg = CFG(f)
        loops = [it for it in _iterations(f) if 'self.listeners' in unparse(it.iter)]
        if not loops:
            rep.violation('EV-emit-sorted', m, 'EventHandler.' + name, 'no-listener-loop',
                          '`%s` does not iterate over `self.listeners`' % name, f.lineno)
        for lp in loops:
            if not cfg.dominators_like_before(
                    lp.stmt, lambda n: bool(_calls_named(n.stmt, 'self._prepare_emit'))):
                rep.violation('EV-emit-sorted', m, 'EventHandler.' + name, 'emit-without-sort',
                              'listeners are called without `_prepare_emit()` (priority order)',
                              lp.lineno)
            # the whole list or an order-preserving full copy of it
            if unparse(lp.iter) not in ('self.listeners', 'list(self.listeners)',
                                        'tuple(self.listeners)', 'self.listeners[:]',
                                        'self.listeners.copy()'):
                rep.violation('EV-emit-sorted', m, 'EventHandler.' + name, 'listener-subset',
                              'iterates `%s` instead of all of `self.listeners`' %
                              unparse(lp.iter), lp.lineno)
            # the callback of each listener is called with *args, **kwargs, **extra_kwargs
            okc = False
            for b in lp.body:
                for c in ast.walk(b):
                    if isinstance(c, ast.Call) and any(isinstance(a, ast.Starred)
                                                       for a in c.args) \
                            and sum(1 for k in c.keywords if k.arg is None) == 2:
                        okc = True
            if not okc:
                rep.violation('EV-emit-sorted', m, 'EventHandler.' + name, 'callback-args',
                              'callback not called as callback(*args, **kwargs, **extra_kwargs)',
                              lp.lineno)
            # no break/continue/filter skipping listeners in emit
            if name == 'emit':
                for x in lp.skips:
                    rep.violation('EV-emit-sorted', m, 'EventHandler.emit', 'skips-listeners',
                                  '`emit` leaves the listener loop early / filters listeners',
                                  getattr(x, 'lineno', lp.lineno))
    # emit_until_result returns first non-None
    f = m.func('EventHandler.emit_until_result')
    rep.instance('EV-until-result', {})
    ok = False
    for x in ast.walk(f):
        if isinstance(x, ast.If) and isinstance(x.test, ast.Compare) and isinstance(
                x.test.ops[0], ast.IsNot) and unparse(x.test.comparators[0]) == 'None' and any(
                    isinstance(b, ast.Return) and unparse(b.value) == unparse(x.test.left)
                    for b in x.body):
            ok = True
    if not ok:
        rep.violation('EV-until-result', m, 'EventHandler.emit_until_result', 'first-result',
                      'must return the first result that `is not None`', f.lineno)
    # _prepare_emit: stable sort, highest priority first
    f = m.func('EventHandler._prepare_emit')
    rep.instance('EV-priority-order', {})
    ok = False
    for c in body_calls(f):
        d = dotted(c.func)
        if d in ('sorted', 'self.listeners.sort'):
            k = kwarg(c, 'key')
            rev = kwarg(c, 'reverse')
            revv = rev is not None and isinstance(rev, ast.Constant) and rev.value is True
            if rev is not None and not isinstance(rev, ast.Constant):
                continue
            if isinstance(k, ast.Lambda):
                b = k.body
                neg = isinstance(b, ast.UnaryOp) and isinstance(b.op, ast.USub)
                core = b.operand if neg else b
                if isinstance(core, ast.Attribute) and core.attr == 'priority' or (
                        isinstance(core, ast.Subscript) and unparse(core.slice) == '2'):
                    if neg != revv:
                        if d == 'sorted':
                            # result must be stored back
                            st = c
                            while not isinstance(st, ast.stmt):
                                st = parent(st)
                            if isinstance(st, ast.Assign) and any(
                                    is_self_attr(t, 'listeners') for t in st.targets) and \
                                    c.args and dotted(c.args[0]) == 'self.listeners':
                                ok = True
                        else:
                            ok = True
    if not ok:
        rep.violation('EV-priority-order', m, 'EventHandler._prepare_emit', 'sort-order',
                      '`_prepare_emit` must (stably) sort `self.listeners` by descending priority '
                      'and store the result', f.lineno)
    # copy(): independent listener list
    f = m.func('EventHandler.copy')
    rep.instance('EV-copy', {})
    init = m.func('EventHandler.__init__')
    init_attrs = [t.attr for s in stmts_of(init) if isinstance(s, ast.Assign)
                  for t in s.targets if is_self_attr(t)]
    copied = {}
    for s in stmts_of(f):
        if isinstance(s, ast.Assign):
            for t in s.targets:
                if isinstance(t, ast.Attribute) and isinstance(t.value, ast.Name) and \
                        t.value.id != 'self':
                    copied[t.attr] = s
    ctor_args = ' '.join(unparse(c) for c in body_calls(f) if dotted(c.func) in (
        'EventHandler', 'self.__class__', 'type(self)'))
    for a in init_attrs:
        if a in copied:
            s = copied[a]
            if ('self.' + a) not in unparse(s.value):
                rep.violation('EV-copy', m, 'EventHandler.copy', 'copy-field:' + a,
                              '`%s`: the copy\'s %s is not taken from self.%s (e.g. listener ids '
                              'are re-used after a disconnect, so disconnect(id) on the copy '
                              'removes another listener)' % (key_text(s), a, a), s.lineno)
        elif ('self.' + a) not in ctor_args:
            rep.violation('EV-copy', m, 'EventHandler.copy', 'copy-field-missing:' + a,
                          'copy() does not carry over self.%s' % a, f.lineno)
    for s in stmts_of(f):
        if isinstance(s, ast.Assign) and any(
                isinstance(t, ast.Attribute) and t.attr == 'listeners' for t in s.targets):
            if unparse(s.value) == 'self.listeners':
                rep.violation('EV-copy', m, 'EventHandler.copy', 'aliased-listeners',
                              'the copy shares the listener list with the original: connecting to '
                              'one connects to both', s.lineno)


def run(prog, rep, tier):
    rep.rule('SYNC-*', 'Worker: get/task_done pairing on all paths, timeouts on blocking queue '
             'calls, exit flag protocol, liveness checks around blocking calls')
    rep.rule('TS-*', 'ThreadedStorage: waiting/load-task pairing, FIFO-only disk access, '
             'read-after-join, consume pairing, pending-load update in save, close order')
    rep.rule('DC-*', 'DictCache: every place __getitem__ can return from is updated by '
             '__setitem__ and invalidated by __delitem__; key-set consistency; sub-cache isolation; '
             'load/save/delete of a storage address the same location')
    rep.rule('EV-*', 'EventHandler: disconnect guard depends on listener_id, id allocation, '
             'emit after stable priority sort over all listeners')
    check_worker(prog, rep)
    check_threaded_storage(prog, rep)
    check_dictcache(prog, rep)
    check_events(prog, rep)
    rep.floor('SYNC-get-task_done', 2)
    check_exit_join(prog, rep)
    rep.floor('SYNC-timeout', 3)
    rep.floor('SYNC-publish-before-done', 1)
    rep.floor('TS-wait-load-pair', 2)
    rep.floor('TS-forget-pending', 3)
    rep.floor('DC-coupled-delete', 2)
    rep.floor('DC-coupled-set', 2)
    rep.floor('EV-disconnect-guard', 1)
    rep.floor('EV-emit-sorted', 2)
    rep.assumptions += [
        'queue.Queue / threading.Event have their documented semantics',
        'linearizability over schedules is NOT decided; only the synchronisation discipline that '
        'is necessary for it',
    ]
    from ..flow import check_dead_computations
    rep.rule('VALUE-dead', 'no result of a call is bound to a local that is never read (reaching '
             'definitions)')
    check_dead_computations(prog, rep, ['tenpy/tools/cache.py', 'tenpy/tools/thread.py', 'tenpy/tools/events.py'])
    from ..flow import check_undefined_attrs
    rep.rule('ATTR-defined', 'every self.X read names an attribute bound somewhere in the class family')
    check_undefined_attrs(prog, rep, ['tenpy/tools/cache.py', 'tenpy/tools/thread.py', 'tenpy/tools/events.py'])
    rep.rule('EV-emit-snapshot / EV-decorator-forward', 'emit loops iterate over a copy of the '
             'listeners (disconnect deletes in place); the decorator form of connect forwards all '
             'parameters')
    if check_event_dispatch(prog, rep) < 3:
        raise AnalysisError('EV-emit-snapshot: emit loops / decorator closure not found')
    rep.rule('ST-sub-registered / ST-overwrite', 'storage classes: sub-containers are registered '
             'with the parent; Hdf5Storage.save removes an existing key first')
    if check_storage_siblings(prog, rep) < 3:
        raise AnalysisError('ST-siblings: subcontainer() / Hdf5Storage.save not recognised')
    return rep.finish(
        level='other',
        explanation='Structural necessary conditions of C20 decided on the current source of '
        'tools/thread.py, tools/cache.py, tools/events.py by CFG path rules (must-follow, '
        'must-precede), coupled-update rules and value-depends-on-parameter dataflow. Each '
        'violation names the construct. Linearizability over all schedules is not decided.')


def check_exit_join(prog, rep):
    """SYNC-exit-join: Worker.__exit__ asks the worker to stop (`self.exit.set()`) and then waits
    for it (`worker_thread.join()`) on EVERY path: callers (ThreadedStorage.__exit__ / close) go
    on to close the disk storage, which a worker that is still running would write to."""
    m = prog.module(THREAD)
    f = m.func('Worker.__exit__')
    cfg = CFG(f)
    sets = [st for st in stmts_of(f) if _calls_named(st, 'self.exit.set') and not isinstance(
        st, (ast.If, ast.For, ast.While, ast.Try, ast.With))]
    if not sets:
        raise AnalysisError('Worker.__exit__: self.exit.set() not found')

    def is_join(n):
        return n.stmt is not None and not isinstance(
            n.stmt, (ast.If, ast.For, ast.While, ast.Try, ast.With)) and bool(
                _calls_named(n.stmt, 'self.worker_thread.join'))
    n = 0
    for st in sets:
        n += 1
        todo = [x for nd in cfg.nodes_of(st) for x in cfg.normal_succ(nd)]
        seen = set()
        ok = True
        while todo:
            x = todo.pop()
            if x.id in seen or is_join(x):
                continue
            seen.add(x.id)
            if x is cfg.exit:
                ok = False
                break
            todo.extend(cfg.normal_succ(x))
        rep.instance('SYNC-exit-join', {'function': 'Worker.__exit__', 'after': key_text(st),
                                        'join_on_all_paths': ok})
        if not ok:
            rep.violation('SYNC-exit-join', m, 'Worker.__exit__', 'exit-without-join',
                          'after `self.exit.set()` a path leaves __exit__ without '
                          '`self.worker_thread.join()`: the caller closes the storage while the '
                          'worker may still be executing a queued save', st.lineno)
    return n


# ------------------------------------------------------------------ EV-emit-snapshot / EV-decorator-forward
def check_event_dispatch(prog, rep):
    """EV-emit-snapshot: disconnect() removes entries from the list `self.listeners` IN PLACE (fact
    read off its body). A callback may disconnect (itself) while the event is emitted, so the emit
    loops iterate over a copy (`list(self.listeners)` / `tuple(..)` / a sorted local), never over
    `self.listeners` itself -- deleting from a list under iteration skips the next entry.
    EV-decorator-forward: the decorator form of connect() re-enters connect() from a closure; the
    inner call passes on every parameter of the outer call (priority AND extra_kwargs)."""
    m = prog.module('tenpy/tools/events.py')
    n = 0
    dis = m.func('EventHandler.disconnect')
    inplace = any(isinstance(x, ast.Delete) and 'self.listeners[' in unparse(x)
                  for x in ast.walk(dis)) or any(
        isinstance(x, ast.Call) and unparse(x.func) in ('self.listeners.remove',
                                                         'self.listeners.pop')
        for x in ast.walk(dis))
    rep.instance('EV-emit-snapshot', {'fact': 'disconnect deletes from self.listeners in place',
                                      'holds': inplace})
    for q in ('EventHandler.emit', 'EventHandler.emit_until_result'):
        f = m.func(q)
        for lp in _iterations(f):      # for statements and comprehensions
            if 'self.listeners' in unparse(lp.iter):
                n += 1
                ok = not inplace or unparse(lp.iter) != 'self.listeners'
                rep.instance('EV-emit-snapshot', {'function': q, 'iterates': unparse(lp.iter),
                                                  'ok': ok})
                if not ok:
                    rep.violation('EV-emit-snapshot', m, q, 'iterates-live-list',
                                  '`for .. in self.listeners` iterates over the list that '
                                  'disconnect() deletes from: a listener disconnecting (itself) '
                                  'during the emit makes the loop skip the next listener',
                                  lp.stmt.lineno)
    f = m.func('EventHandler.connect')
    ps = [p_ for p_ in params(f) if p_ not in ('self', 'callback')]
    for inner in ast.walk(f):
        if isinstance(inner, ast.FunctionDef) and inner is not f:
            for c in ast.walk(inner):
                if isinstance(c, ast.Call) and unparse(c.func) == 'self.connect':
                    n += 1
                    passed = {x.id for a in list(c.args) + [k.value for k in c.keywords]
                              for x in ast.walk(a) if isinstance(x, ast.Name)}
                    miss = [p_ for p_ in ps if p_ not in passed]
                    rep.instance('EV-decorator-forward', {'call': unparse(c), 'missing': miss})
                    if miss:
                        rep.violation('EV-decorator-forward', m, 'EventHandler.connect',
                                      'decorator-drops:' + ','.join(miss),
                                      'the decorator form registers the function with `%s`, without '
                                      '%s of the outer call: the listener is later called without '
                                      'these arguments' % (unparse(c), miss), c.lineno)
    return n


# ------------------------------------------------------------------ ST-siblings
def check_storage_siblings(prog, rep):
    """ST-siblings: the storage classes implement one interface (a dict on disk).
    ST-sub-registered: every subcontainer() that CREATES a storage object (a constructor / open call
    of a Storage class; delegation to another subcontainer() does not count) registers it in
    `self._subcontainers`, the list Storage._common_close closes.
    ST-overwrite: save() may be called for an existing key (`cache[k] = v` twice). An HDF5 group
    cannot create a second link of the same name: Hdf5Storage.save removes `key` first
    (`del self.h5gr[key]` / `self.delete(key)` on every path before save_to_hdf5)."""
    from ..cfg import CFG
    m = prog.module(CACHE)
    ct = prog.classtable()
    base = ct.get('Storage')
    names = {c.name for c in ct.cone(base)}
    n = 0
    for ci in ct.cone(base):
        f = ci.methods.get('subcontainer')
        if f is None:
            continue
        creates = [c for c in ast.walk(f) if isinstance(c, ast.Call) and (
            unparse(c.func) in names or unparse(c.func) == 'self.__class__' or
            (isinstance(c.func, ast.Attribute) and c.func.attr == 'open' and
             unparse(c.func.value) in names))]
        direct = [c for c in creates if not any(
            isinstance(a, ast.Call) and isinstance(a.func, ast.Attribute) and
            a.func.attr == 'subcontainer' for x in c.args for a in ast.walk(x))]
        if not direct:
            continue
        n += 1
        ok = any(isinstance(c, ast.Call) and unparse(c.func) == 'self._subcontainers.append'
                 for c in ast.walk(f))
        rep.instance('ST-sub-registered', {'class': ci.name, 'registers': ok})
        if not ok:
            rep.violation('ST-sub-registered', m, ci.name + '.subcontainer', 'not-registered',
                          '%s.subcontainer creates a storage object but does not append it to '
                          'self._subcontainers: it is not closed with its parent' % ci.name,
                          f.lineno)
    h = ct.get('Hdf5Storage').methods['save']
    cfg = CFG(h)
    for st in stmts_of(h):
        if isinstance(st, ast.Expr) and isinstance(st.value, ast.Call) and \
                unparse(st.value.func) == 'save_to_hdf5':
            n += 1

            def removes(nd):
                s = nd.stmt
                if s is None:
                    return False
                # the guarded removal `if key in self.h5gr: del self.h5gr[key]` as a whole
                txt = unparse(s)
                return isinstance(s, ast.If) and 'in self.h5gr' in unparse(s.test) and (
                    'del self.h5gr[' in txt or 'self.delete(' in txt)
            ok = cfg.dominators_like_before(st, removes)
            rep.instance('ST-overwrite', {'class': 'Hdf5Storage', 'removes_existing_key': ok})
            if not ok:
                rep.violation('ST-overwrite', m, 'Hdf5Storage.save', 'no-overwrite',
                              'save_to_hdf5 is called without removing an existing entry of the '
                              'same key first: assigning a cache key a second time raises OSError '
                              '("name already exists"); PickleStorage overwrites', st.lineno)
    return n
