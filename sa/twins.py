"""Comparisons between the two implementations of one kernel (python / Cython twins) that go
beyond effects and flags: index regions swept by counted loops, and the condition under which an
in-place transposition is skipped."""
import ast

from .core import call_name, key_text, unparse
from .linform import NotPoly, Poly, eval_poly
from .normal import inline_temps
from .pattern import guards_of


def _abstract(p):
    """shape of an index polynomial: constant term and (degree, coefficient) of every other
    monomial; the NAMES of the bound symbols differ between the twins (npipes / len(pipes))"""
    return (repr(p.const_value()),
            tuple(sorted((len(m), repr(c)) for m, c in p.t.items() if m != ())))


def loop_regions(fn):
    """(array, Load/Store, dimension) -> set of abstract regions swept by `for v in range(..)`
    loops: the index polynomial at the first and at the last value of the loop variable."""
    out = {}
    where = {}
    for lp in ast.walk(fn):
        if not (isinstance(lp, ast.For) and isinstance(lp.target, ast.Name) and isinstance(
                lp.iter, ast.Call) and isinstance(lp.iter.func, ast.Name) and
                lp.iter.func.id == 'range' and not lp.iter.keywords):
            continue
        v = lp.target.id
        a = lp.iter.args
        try:
            step = 1
            if len(a) == 1:
                lo, hi = Poly.const(0), eval_poly(a[0], {}, True)
            else:
                lo, hi = eval_poly(a[0], {}, True), eval_poly(a[1], {}, True)
                if len(a) == 3:
                    st = eval_poly(a[2], {}, True)
                    if not st.is_const() or st.const_value().im != 0:
                        continue
                    step = st.const_value().re
        except NotPoly:
            continue
        if step == 1:
            first, last = lo, hi - Poly.const(1)
        elif step == -1:
            first, last = lo, hi + Poly.const(1)
        else:
            continue
        for s in ast.walk(lp):
            if not (isinstance(s, ast.Subscript) and isinstance(s.value, ast.Name)):
                continue
            dims = s.slice.elts if isinstance(s.slice, ast.Tuple) else [s.slice]
            for k, d in enumerate(dims):
                if isinstance(d, ast.Slice) or not any(
                        isinstance(n, ast.Name) and n.id == v for n in ast.walk(d)):
                    continue
                try:
                    p0, p1 = eval_poly(d, {v: first}), eval_poly(d, {v: last})
                except NotPoly:
                    continue
                key = (s.value.id.rstrip('_'), type(s.ctx).__name__, k)
                out.setdefault(key, set()).add(tuple(sorted([_abstract(p0), _abstract(p1)])))
                where.setdefault(key, s.lineno)
    return out, where


def check_regions(prog, rep, pairs, pyx):
    """PAIR-regions: where both twins sweep the same array with a counted loop, the swept index
    regions (first / last index as polynomials in the loop bounds, bound names abstracted) agree."""
    for rel, q, f, repl in pairs:
        if not pyx.has_func(repl):
            continue
        m = prog.module(rel)
        g = pyx.func(repl)
        (rf, wf), (rg, _) = loop_regions(f), loop_regions(g)
        for key in sorted(set(rf) & set(rg)):
            rep.instance('PAIR-regions', {'pair': repl, 'array': key[0], 'access': key[1],
                                          'dim': key[2], 'python': repr(sorted(rf[key])),
                                          'pyx': repr(sorted(rg[key]))})
            if rf[key] != rg[key]:
                rep.violation('PAIR-regions', m, q, 'region:%s:%s:%d' % key,
                              'the counted loops of the twins %s `%s` (dimension %d) over '
                              'different index regions: python %s vs compiled %s (first / last '
                              'index, loop-bound names abstracted)' %
                              ('write' if key[1] == 'Store' else 'read', key[0], key[2],
                               sorted(rf[key] - rg[key]), sorted(rg[key] - rf[key])), wf[key])


def order_names(expr):
    """names whose ORDER matters for the value of `expr`: not those used only as the container
    of a membership test or under len()/set()/sorted()/.rank/.shape, not comprehension variables"""
    skip = set()
    bound = set()
    for n in ast.walk(expr):
        if isinstance(n, ast.Compare):
            for op, c in zip(n.ops, n.comparators):
                if isinstance(op, (ast.In, ast.NotIn)):
                    skip.update(id(x) for x in ast.walk(c))
        elif isinstance(n, ast.Call):
            fn = call_name(n)
            if fn in ('len', 'set', 'sorted', 'frozenset'):
                for a in n.args:
                    skip.update(id(x) for x in ast.walk(a))
            skip.update(id(x) for x in ast.walk(n.func))
        elif isinstance(n, ast.Attribute) and n.attr in ('rank', 'shape', 'ndim', 'intp'):
            skip.update(id(x) for x in ast.walk(n.value))
        elif isinstance(n, ast.comprehension):
            bound.update(x.id for x in ast.walk(n.target) if isinstance(x, ast.Name))
    return {n.id for n in ast.walk(expr) if isinstance(n, ast.Name) and id(n) not in skip and
            n.id not in bound and n.id not in ('np', 'range', 'list', 'tuple', 'True', 'False')}


def _range_test(e):
    return any(isinstance(c, ast.Compare) and any(
        isinstance(x, ast.Call) and call_name(x) == 'range' for x in ast.walk(c))
        for c in ast.walk(e))


def skip_transpose_sites(fn):
    """(call, permutation expr, identity-test guards) for every transposition in the normal form
    of fn; identity-test guard = a condition of the call that compares with a range(...)"""
    nf = inline_temps(fn)
    for c in ast.walk(nf):
        if not isinstance(c, ast.Call):
            continue
        perm = None
        if isinstance(c.func, ast.Attribute) and c.func.attr in ('itranspose', 'transpose') and \
                len(c.args) == 1:
            perm = c.args[0]
        elif call_name(c) == 'Array_itranspose_fast' and len(c.args) == 2:
            perm = c.args[1]
        if perm is None:
            continue
        gs = [e for _, _, e in guards_of(nf, c) if _range_test(e)]
        yield c, perm, gs


def _sorted_complements(fn):
    """locals only ever bound to `[i for i in range(..) if i not in X]`: ascending by
    construction, they carry no order of their own"""
    vals = {}
    for st in ast.walk(fn):
        if isinstance(st, ast.Assign):
            for t in st.targets:
                for n in ast.walk(t):
                    if isinstance(n, ast.Name):
                        vals.setdefault(n.id, []).append(st.value if n is t else None)
        elif isinstance(st, (ast.AugAssign, ast.For, ast.NamedExpr, ast.AnnAssign)):
            for n in ast.walk(st.target):
                if isinstance(n, ast.Name):
                    vals.setdefault(n.id, []).append(None)

    def asc(v):
        if not (isinstance(v, ast.ListComp) and len(v.generators) == 1):
            return False
        g = v.generators[0]
        return isinstance(g.target, ast.Name) and isinstance(v.elt, ast.Name) and \
            v.elt.id == g.target.id and isinstance(g.iter, ast.Call) and \
            call_name(g.iter) == 'range'
    return {n for n, vs in vals.items() if vs and all(asc(v) for v in vs)}


def check_skip_transpose(rep, units, rule='PAIR-skip-transpose'):
    """A transposition that is skipped when a comparison with range(..) holds: the comparison must
    see, order-sensitively, every sequence the permutation is built from (a test on the sorted
    complement says nothing about the order of the contracted axes). units: (module, qual, func)"""
    for mod, q, fn in units:
        for c, perm, gs in skip_transpose_sites(fn):
            comp = _sorted_complements(fn)
            need = {n for n in order_names(perm) if n not in comp}
            have = set()
            for e in gs:
                have |= order_names(e)
            rep.instance(rule, {'function': q, 'call': key_text(c)[:80],
                                'guards': [unparse(e)[:80] for e in gs],
                                'needs': sorted(need), 'sees': sorted(have)})
            if gs and need - have:
                rep.violation(rule, mod, q, 'skip-ignores:' + ','.join(sorted(need - have)),
                              '`%s` is skipped depending on `%s`, which does not look at the '
                              'order of %s: an argument that lists the same axes in another '
                              'order is left un-transposed and its legs are paired with the '
                              'wrong legs of the other operand' %
                              (unparse(c)[:70], ' / '.join(unparse(e)[:70] for e in gs),
                               sorted(need - have)), c.lineno)


def check_raise_guards(prog, rep, pairs, pyx):
    """PAIR-raise-guards: an error that both twins raise (same class, same message text) is raised
    under the same conditions (guards read off the block structure, `and` / `not` / guard clauses
    normalised). A twin that rejects more (or less) behaves differently for exactly those inputs."""
    def raises(fn):
        out = {}
        from .normal import inline_temps
        try:
            fn = inline_temps(fn, aliases_only=True)    # `rank = self.rank` is the same condition
        except Exception:
            pass
        # control-state flags (locals only ever bound to True / False) re-encode the block
        # structure (e.g. try/except/else written with a flag); they are not conditions on inputs
        binds = {}
        for a in ast.walk(fn):
            if isinstance(a, ast.Assign):
                for t in a.targets:
                    if isinstance(t, ast.Name):
                        binds.setdefault(t.id, []).append(a.value)
        flags = {k for k, vs in binds.items() if all(
            isinstance(v, ast.Constant) and isinstance(v.value, bool) for v in vs)}
        for r in ast.walk(fn):
            if not (isinstance(r, ast.Raise) and r.exc is not None):
                continue
            e = r.exc
            cls = unparse(e.func) if isinstance(e, ast.Call) else unparse(e)
            msg = None
            if isinstance(e, ast.Call) and e.args:
                for c in ast.walk(e.args[0]):
                    if isinstance(c, ast.Constant) and isinstance(c.value, str):
                        msg = c.value[:40]
                        break
            if msg is None:
                continue
            out[(cls, msg)] = (frozenset((t, p) for t, p, _ in guards_of(fn, r)
                                         if t not in flags), r)
        return out
    n = 0
    for rel, q, f, repl in pairs:
        if not pyx.has_func(repl):
            continue
        m = prog.module(rel)
        rf, rg = raises(f), raises(pyx.func(repl))
        for k in sorted(set(rf) & set(rg), key=str):
            n += 1
            gf, gg = rf[k][0], rg[k][0]
            # names of cached ranks differ between the twins (a_rank / a.rank)
            norm = lambda gs: frozenset((t.replace('_rank', '.rank'), p) for t, p in gs)
            rep.instance('PAIR-raise-guards', {'pair': repl, 'error': '%s(%r)' % k,
                                              'agree': norm(gf) == norm(gg)})
            if norm(gf) != norm(gg):
                rep.violation('PAIR-raise-guards', m, q, 'raise-guards:%s' % k[1],
                              'both twins raise %s(%r), but under different conditions: python '
                              'only %s, compiled only %s: inputs in the difference fail in one '
                              'configuration and pass in the other' %
                              (k[0], k[1], sorted(norm(gf) - norm(gg)), sorted(norm(gg) - norm(gf))),
                              rf[k][1].lineno)
    return n


TRANSPOSITION_KEYS = ('trans', 'trans_a', 'trans_b')


def check_accumulate_options(prog, rep, rel='tenpy/linalg/np_conserved.py',
                             qual='_tensordot_pre_worker'):
    """PAIR-accumulate-options: the closures `fast_dot_sum` compute the first block product with
    one BLAS call and accumulate the remaining ones with further calls of the same routine. All
    calls inside one closure must use the same transposition options (`trans`, ...), whether
    given as keywords or through a `**dict` assembled in the enclosing function (dict literals and
    `.update()` are tracked per branch)."""
    m = prog.module(rel)
    f = m.functions.get(qual)
    if f is None:
        from .core import AnalysisError
        raise AnalysisError('%s not found' % qual)
    n = 0

    def walk(stmts, env):
        nonlocal n
        for st in stmts:
            if isinstance(st, (ast.FunctionDef, ast.AsyncFunctionDef)):
                calls = [c for c in ast.walk(st) if isinstance(c, ast.Call) and
                         isinstance(c.func, ast.Name) and c.func.id.startswith('blas_')]
                opts = []
                for c in calls:
                    keys = {}
                    for k in c.keywords:
                        if k.arg is not None:
                            keys[k.arg] = unparse(k.value)
                        elif isinstance(k.value, ast.Name) and k.value.id in env:
                            keys.update(env[k.value.id])
                        else:
                            keys['?'] = unparse(k.value)
                    opts.append(({k: v for k, v in keys.items() if k in TRANSPOSITION_KEYS or
                                  k == '?'}, c))
                if len(opts) >= 2:
                    n += 1
                    rep.instance('PAIR-accumulate-options', {
                        'closure': st.name, 'line': st.lineno,
                        'options': [o for o, _ in opts]})
                    first = opts[0][0]
                    for o, c in opts[1:]:
                        if o != first and '?' not in o and '?' not in first:
                            rep.violation('PAIR-accumulate-options', m, qual,
                                          'options-differ:%s' % sorted(set(first.items()) ^
                                                                       set(o.items())),
                                          '`%s` is called with the transposition options %s, '
                                          'the first product of the same sum with %s: the '
                                          'accumulated terms are computed with another operand '
                                          'layout than the first one' %
                                          (unparse(c)[:60], o, first), c.lineno)
                continue
            if isinstance(st, ast.If):
                walk(st.body, {k: dict(v) for k, v in env.items()})
                walk(st.orelse, {k: dict(v) for k, v in env.items()})
                for x in ast.walk(st):
                    if isinstance(x, ast.Name) and isinstance(x.ctx, ast.Store):
                        env.pop(x.id, None)
                continue
            if isinstance(st, ast.Assign) and len(st.targets) == 1 and isinstance(
                    st.targets[0], ast.Name):
                v = st.value
                if isinstance(v, ast.Dict) and all(k is not None for k in v.keys):
                    env[st.targets[0].id] = {
                        (k.value if isinstance(k, ast.Constant) else '<%s>' % unparse(k)):
                        unparse(val) for k, val in zip(v.keys, v.values)}
                else:
                    env.pop(st.targets[0].id, None)
                continue
            if isinstance(st, ast.Expr) and isinstance(st.value, ast.Call) and isinstance(
                    st.value.func, ast.Attribute) and st.value.func.attr == 'update' and \
                    isinstance(st.value.func.value, ast.Name) and \
                    st.value.func.value.id in env and len(st.value.args) == 1:
                a = st.value.args[0]
                if isinstance(a, ast.Name) and a.id in env:
                    env[st.value.func.value.id].update(env[a.id])
                elif isinstance(a, ast.Dict):
                    for k, val in zip(a.keys, a.values):
                        if isinstance(k, ast.Constant):
                            env[st.value.func.value.id][k.value] = unparse(val)
                else:
                    env.pop(st.value.func.value.id, None)
                continue
            for x in ast.walk(st):
                if isinstance(x, ast.Name) and isinstance(x.ctx, ast.Store):
                    env.pop(x.id, None)
    walk(f.body, {})
    return n



def check_sort_after_reorder(prog, rep, units):
    """PAIR-sort-after-reorder: a block-list merge (two-pointer walk over `_qdata`) needs both
    operands lex-sorted. `X.isort_qdata()` establishes that; `X = X._transpose_same_labels(..)`,
    `X = X.transpose(..)` and `X.itranspose(..)` permute the columns of `_qdata` and destroy it (and
    change the legs that an earlier compatibility check looked at). In every kernel that does both
    for one operand the LAST reordering of X precedes the LAST sort of X, and precedes the
    leg-by-leg comparison `test_equal` / `test_contractible` if there is one.
    `units`: iterable of (module, qualname, function)."""
    from .core import stmts_of
    REORDER = ('_transpose_same_labels', 'transpose', 'itranspose')
    n = 0
    for m, q, f in units:
        sorts, reorders = {}, {}
        leg_checks = []
        for st in stmts_of(f):
            if isinstance(st, (ast.If, ast.For, ast.While, ast.Try, ast.With)):
                hdr = [st.test] if isinstance(st, (ast.If, ast.While)) else (
                    [st.iter] if isinstance(st, ast.For) else [])
                walk = [x for h in hdr for x in ast.walk(h)]
            else:
                walk = list(ast.walk(st))
            for c in walk:
                if not (isinstance(c, ast.Call) and isinstance(c.func, ast.Attribute)):
                    continue
                recv = unparse(c.func.value)
                if c.func.attr == 'isort_qdata':
                    sorts.setdefault(recv, []).append(c.lineno)
                elif c.func.attr in REORDER and isinstance(c.func.value, ast.Name):
                    # re-binding form `X = X.transpose()` or in-place `X.itranspose()`
                    if c.func.attr == 'itranspose' or (isinstance(st, ast.Assign) and any(
                            isinstance(t, ast.Name) and t.id == recv for t in st.targets)):
                        reorders.setdefault(recv, []).append(c.lineno)
                elif c.func.attr in ('test_equal', 'test_contractible'):
                    leg_checks.append(c.lineno)
        for x in sorted(set(sorts) & set(reorders)):
            n += 1
            ok_sort = max(reorders[x]) < max(sorts[x])
            ok_legs = not leg_checks or max(reorders[x]) < min(leg_checks)
            rep.instance('PAIR-sort-after-reorder', {'function': q, 'operand': x,
                                                     'sorted_after_reorder': ok_sort,
                                                     'legs_checked_after_reorder': ok_legs})
            if not ok_sort:
                rep.violation('PAIR-sort-after-reorder', m, q, 'reorder-after-sort:' + x,
                              '`%s` is transposed (line %d) AFTER its block list was sorted '
                              '(line %d): the merge walks an unsorted `_qdata` as if sorted -- '
                              'wrong entries, duplicate blocks, a true `_qdata_sorted` flag on '
                              'unsorted data' % (x, max(reorders[x]), max(sorts[x])),
                              max(reorders[x]))
            elif not ok_legs:
                rep.violation('PAIR-sort-after-reorder', m, q, 'reorder-after-legcheck:' + x,
                              'the legs of `%s` are compared (line %d) BEFORE it is transposed '
                              '(line %d): the check looks at the wrong legs' %
                              (x, min(leg_checks), max(reorders[x])), max(reorders[x]))
    return n


def check_augassign_guards(prog, rep, pairs, pyx):
    """PAIR-augassign-guards: an in-place update (`x[..] -= e`, `x += e`) of a local array that BOTH
    twins perform is performed under the same branch conditions in both (loop headers are not
    conditions). A twin that applies the update only in one branch leaves the array different for
    the inputs of the other branch (LegPipe(.., bunch=False): q_map slices not made relative)."""
    def augs(fn):
        out = {}
        for a in ast.walk(fn):
            if not isinstance(a, ast.AugAssign):
                continue
            b = a.target
            while isinstance(b, ast.Subscript):
                b = b.value
            if not isinstance(b, ast.Name):
                continue
            key = (b.id, type(a.op).__name__)
            gs = frozenset((t, p) for t, p, e in guards_of(fn, a)
                           if not isinstance(e, (ast.For, ast.While)))
            out.setdefault(key, set()).add(gs)
        return out
    n = 0
    for rel, q, f, repl in pairs:
        if not pyx.has_func(repl):
            continue
        m = prog.module(rel)
        af, ag = augs(f), augs(pyx.func(repl))
        for k in sorted(set(af) & set(ag)):
            n += 1
            uncond_f = frozenset() in af[k]
            uncond_g = frozenset() in ag[k]
            rep.instance('PAIR-augassign-guards', {'pair': repl, 'update': '%s %s=' % k,
                                                  'python_unconditional': uncond_f,
                                                  'compiled_unconditional': uncond_g})
            if uncond_f != uncond_g:
                cond = sorted(next(iter(af[k] if uncond_g else ag[k])))
                rep.violation('PAIR-augassign-guards', m, q, 'augassign-guards:%s' % k[0],
                              'both twins update `%s` in place, the %s one unconditionally, the '
                              '%s one only under %s: for the other branch the two results differ'
                              % (k[0], 'compiled' if uncond_g else 'python',
                                 'python' if uncond_g else 'compiled', cond), f.lineno)
    return n
