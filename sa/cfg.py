"""Statement-level control-flow graph over python `ast` (hand-built; no library exists offline).

Nodes are ints. node.stmt is the ast statement (for compound statements the node stands for the
header: the test of `if`/`while`, the iterator of `for`, the items of `with`). Three synthetic
nodes: ENTRY, EXIT (normal return / fall off the end), RAISE (exceptional exit).

Exceptional edges: explicit `raise`; `assert` (to handler/RAISE); every statement inside a `try`
body may jump to each of its handlers. `finally` bodies are duplicated for the abrupt
continuations (return / raise / break / continue) so paths stay precise.
"""
import ast


class Node:
    __slots__ = ('id', 'stmt', 'kind', 'succ', 'pred', 'label')

    def __init__(self, id, stmt, kind):
        self.id = id
        self.stmt = stmt
        self.kind = kind
        self.succ = []
        self.pred = []
        self.label = None

    def __repr__(self):
        return '<N%d %s %s>' % (self.id, self.kind, ast.unparse(self.stmt).split('\n')[0][:50]
                                if self.stmt is not None else '')


class CFG:
    def __init__(self, func):
        self.func = func
        self.nodes = []
        self.entry = self._new(None, 'entry')
        self.exit = self._new(None, 'exit')
        self.raise_ = self._new(None, 'raise')
        self.by_stmt = {}
        self.exc_edges = set()
        ctx = _Ctx(ret=self.exit, exc=[self.raise_], brk=None, cont=None)
        last = self._block(func.body, [self.entry], ctx)
        for n in last:
            self._edge(n, self.exit)

    # -- construction
    def _new(self, stmt, kind):
        n = Node(len(self.nodes), stmt, kind)
        self.nodes.append(n)
        if stmt is not None:
            self.by_stmt.setdefault(id(stmt), []).append(n)
        return n

    def _edge(self, a, b, exc=False):
        if b not in a.succ:
            a.succ.append(b)
            b.pred.append(a)
            if exc:
                self.exc_edges.add((a.id, b.id))

    def normal_succ(self, n):
        return [s for s in n.succ if (n.id, s.id) not in self.exc_edges]

    def _block(self, stmts, preds, ctx):
        for st in stmts:
            preds = self._stmt(st, preds, ctx)
        return preds

    def _stmt(self, st, preds, ctx):
        if isinstance(st, (ast.FunctionDef, ast.AsyncFunctionDef, ast.ClassDef)):
            n = self._new(st, 'def')
            for p in preds:
                self._edge(p, n)
            return [n]
        if isinstance(st, ast.If):
            n = self._new(st, 'if')
            for p in preds:
                self._edge(p, n)
            if ctx.in_try:
                for h in ctx.exc:
                    self._edge(n, h, exc=True)
            n.label = 'if'
            t = self._block(st.body, [n], ctx)
            if st.orelse:
                e = self._block(st.orelse, [n], ctx)
            else:
                e = [n]
            return t + [x for x in e if x not in t]
        if isinstance(st, (ast.For, ast.AsyncFor, ast.While)):
            n = self._new(st, 'loop')
            for p in preds:
                self._edge(p, n)
            after = self._new(None, 'join')
            inner = _Ctx(ret=ctx.ret, exc=ctx.exc, brk=after, cont=n, fin=ctx.fin,
                         in_try=ctx.in_try)
            inner.fin_loop_depth = len(ctx.fin)
            b = self._block(st.body, [n], inner)
            for x in b:
                self._edge(x, n)
            infinite = isinstance(st, ast.While) and isinstance(st.test, ast.Constant) and bool(
                st.test.value)
            if not infinite:
                if st.orelse:
                    e = self._block(st.orelse, [n], ctx)
                    for x in e:
                        self._edge(x, after)
                else:
                    self._edge(n, after)
            return [after]
        if isinstance(st, (ast.With, ast.AsyncWith)):
            n = self._new(st, 'with')
            for p in preds:
                self._edge(p, n)
            return self._block(st.body, [n], ctx)
        if isinstance(st, ast.Try) or (hasattr(ast, 'TryStar') and isinstance(st, ast.TryStar)):
            return self._try(st, preds, ctx)
        if hasattr(ast, 'Match') and isinstance(st, ast.Match):
            n = self._new(st, 'match')
            for p in preds:
                self._edge(p, n)
            outs = [n]
            for c in st.cases:
                outs += self._block(c.body, [n], ctx)
            return outs
        # simple statements
        n = self._new(st, 'stmt')
        for p in preds:
            self._edge(p, n)
        if ctx.in_try:
            for h in ctx.exc:
                self._edge(n, h, exc=True)
        if isinstance(st, ast.Return):
            self._abrupt(n, ctx, 'ret')
            return []
        if isinstance(st, ast.Raise):
            self._abrupt(n, ctx, 'exc')
            return []
        if isinstance(st, ast.Break):
            self._abrupt(n, ctx, 'brk')
            return []
        if isinstance(st, ast.Continue):
            self._abrupt(n, ctx, 'cont')
            return []
        if isinstance(st, ast.Assert):
            for h in ctx.exc:
                self._edge(n, h, exc=True)
        return [n]

    def _abrupt(self, n, ctx, what):
        """Route an abrupt exit through pending `finally` bodies (duplicated)."""
        preds = [n]
        fins = list(ctx.fin)
        if what in ('brk', 'cont'):
            fins = fins[getattr(ctx, 'fin_loop_depth', 0):]
        for (finalbody, outer_ctx) in reversed(fins):
            preds = self._block(finalbody, preds, outer_ctx)
        if what == 'ret':
            targets = [ctx.ret]
        elif what == 'exc':
            targets = ctx.exc
        elif what == 'brk':
            targets = [ctx.brk]
        else:
            targets = [ctx.cont]
        for p in preds:
            for t in targets:
                if t is not None:
                    self._edge(p, t)

    def _try(self, st, preds, ctx):
        head = self._new(st, 'try')
        for p in preds:
            self._edge(p, head)
        fin = list(ctx.fin)
        if st.finalbody:
            fin = fin + [(st.finalbody, ctx)]
        # handlers
        hstarts = []
        hctx = _Ctx(ret=ctx.ret, exc=ctx.exc, brk=ctx.brk, cont=ctx.cont, fin=fin,
                    in_try=ctx.in_try)
        hctx.fin_loop_depth = getattr(ctx, 'fin_loop_depth', 0)
        houts = []
        for h in st.handlers:
            hn = self._new(h, 'except')
            hstarts.append(hn)
        catches_all = any(h.type is None or (isinstance(h.type, ast.Name) and h.type.id in
                                             ('Exception', 'BaseException'))
                          for h in st.handlers)
        exc_targets = list(hstarts)
        if not catches_all or not st.handlers:
            # exception may propagate: through finally (duplicated) to outer handlers
            if st.finalbody:
                prop = self._new(None, 'join')
                outs = self._block(st.finalbody, [prop], ctx)
                for o in outs:
                    for t in ctx.exc:
                        self._edge(o, t)
                exc_targets.append(prop)
            else:
                exc_targets += ctx.exc
        bctx = _Ctx(ret=ctx.ret, exc=exc_targets, brk=ctx.brk, cont=ctx.cont, fin=fin, in_try=True)
        bctx.fin_loop_depth = getattr(ctx, 'fin_loop_depth', 0)
        b = self._block(st.body, [head], bctx)
        if st.orelse:
            b = self._block(st.orelse, b, hctx)
        for hn, h in zip(hstarts, st.handlers):
            houts += self._block(h.body, [hn], hctx)
        outs = b + houts
        if st.finalbody:
            outs = self._block(st.finalbody, outs, ctx)
        return outs

    # -- queries
    def nodes_of(self, stmt):
        return self.by_stmt.get(id(stmt), [])

    def reachable_from(self, starts, blocked=lambda n: False):
        """Nodes reachable from successors of `starts` without passing through blocked nodes."""
        seen = set()
        todo = []
        for s in starts:
            todo.extend(s.succ)
        while todo:
            n = todo.pop()
            if n.id in seen:
                continue
            seen.add(n.id)
            if blocked(n):
                continue
            todo.extend(n.succ)
        return {self.nodes[i] for i in seen}

    def exit_reachable_avoiding(self, start_stmt, pred, include_start=False):
        """True if from (after) `start_stmt` the normal EXIT is reachable along a path on which no
        statement node satisfies pred(node)."""
        starts = self.nodes_of(start_stmt)
        for s in starts:
            if include_start and pred(s):
                continue
            r = self.reachable_from([s], blocked=lambda n: n.stmt is not None and pred(n))
            if self.exit in r:
                return True
        return False

    def dominators_like_before(self, target_stmt, pred):
        """True if every path ENTRY -> target passes a node satisfying pred (must-precede)."""
        targets = self.nodes_of(target_stmt)
        r = self.reachable_from([self.entry], blocked=lambda n: n.stmt is not None and pred(n))
        return not any(t in r and not pred(t) for t in targets)

    def forward(self, init, transfer, join, bottom=None):
        """Generic forward dataflow. state_in[entry]=init. Returns (state_in, state_out) dicts by
        node id. `transfer(node, state) -> state`; `join(a, b) -> state`. States must be
        comparable with ==."""
        state_in = {self.entry.id: init}
        state_out = {}
        work = [self.entry]
        while work:
            n = work.pop(0)
            sin = state_in.get(n.id, bottom)
            if sin is None:
                continue
            sout = transfer(n, sin)
            if n.id in state_out and state_out[n.id] == sout:
                continue
            state_out[n.id] = sout
            for s in n.succ:
                old = state_in.get(s.id)
                new = sout if old is None else join(old, sout)
                if old is None or new != old:
                    state_in[s.id] = new
                    if s not in work:
                        work.append(s)
                elif s.id not in state_out:
                    if s not in work:
                        work.append(s)
        return state_in, state_out


class _Ctx:
    def __init__(self, ret, exc, brk, cont, fin=(), in_try=False):
        self.ret = ret
        self.exc = exc
        self.brk = brk
        self.cont = cont
        self.fin = list(fin)
        self.in_try = in_try
        self.fin_loop_depth = 0
