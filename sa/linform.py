"""Exact polynomials with complex-rational coefficients over commuting symbols, and a small
evaluator from python expressions (ast) to such polynomials.

Used for closed symbolic obligations (Suzuki-Trotter time sums, charge algebra, list lengths).
It interprets *literal data taken from the AST*; it never imports or executes tenpy.
"""
import ast
from fractions import Fraction


class NotPoly(Exception):
    pass


class C:
    """complex number with Fraction parts"""
    __slots__ = ('re', 'im')

    def __init__(self, re=0, im=0):
        self.re = Fraction(re)
        self.im = Fraction(im)

    def __add__(self, o):
        return C(self.re + o.re, self.im + o.im)

    def __sub__(self, o):
        return C(self.re - o.re, self.im - o.im)

    def __mul__(self, o):
        return C(self.re * o.re - self.im * o.im, self.re * o.im + self.im * o.re)

    def __neg__(self):
        return C(-self.re, -self.im)

    def inv(self):
        d = self.re * self.re + self.im * self.im
        if d == 0:
            raise NotPoly('division by zero')
        return C(self.re / d, -self.im / d)

    def is_zero(self):
        return self.re == 0 and self.im == 0

    def __eq__(self, o):
        return isinstance(o, C) and self.re == o.re and self.im == o.im

    def __hash__(self):
        return hash((self.re, self.im))

    def __repr__(self):
        def f(x):
            return str(x.numerator) if x.denominator == 1 else '%s/%s' % (x.numerator,
                                                                          x.denominator)
        if self.im == 0:
            return f(self.re)
        if self.re == 0:
            return f(self.im) + 'j'
        return '(%s%+sj)' % (f(self.re), f(self.im))


class Poly:
    """sum of coeff * monomial; monomial = sorted tuple of symbol names (with repetition)"""

    def __init__(self, terms=None):
        self.t = {}
        if terms:
            for m, c in terms.items():
                if not c.is_zero():
                    self.t[m] = c

    @staticmethod
    def const(v):
        if isinstance(v, complex):
            return Poly({(): C(Fraction(v.real), Fraction(v.imag))})
        if isinstance(v, bool):
            v = int(v)
        return Poly({(): C(Fraction(v), 0)})

    @staticmethod
    def sym(name):
        return Poly({(name, ): C(1, 0)})

    def __add__(self, o):
        t = dict(self.t)
        for m, c in o.t.items():
            t[m] = t.get(m, C()) + c
        return Poly(t)

    def __neg__(self):
        return Poly({m: -c for m, c in self.t.items()})

    def __sub__(self, o):
        return self + (-o)

    def __mul__(self, o):
        t = {}
        for m1, c1 in self.t.items():
            for m2, c2 in o.t.items():
                m = tuple(sorted(m1 + m2))
                t[m] = t.get(m, C()) + c1 * c2
        return Poly(t)

    def is_const(self):
        return all(m == () for m in self.t)

    def const_value(self):
        return self.t.get((), C())

    def div(self, o):
        if not o.is_const():
            raise NotPoly('division by non-constant')
        return self * Poly({(): o.const_value().inv()})

    def is_zero(self):
        return not self.t

    def __eq__(self, o):
        return isinstance(o, Poly) and (self - o).is_zero()

    def __hash__(self):
        return hash(frozenset(self.t.items()))

    def symbols(self):
        return {s for m in self.t for s in m}

    def coeff(self, *mono):
        return self.t.get(tuple(sorted(mono)), C())

    def __repr__(self):
        if not self.t:
            return '0'
        parts = []
        for m in sorted(self.t):
            c = self.t[m]
            parts.append(('%r' % c) + (('*' + '*'.join(m)) if m else ''))
        return ' + '.join(parts)


def eval_poly(node, env, opaque_calls=False):
    """Evaluate an expression to a Poly. env: name -> Poly. Unknown names become symbols.
    Attribute chains / subscripts (`self.dt`, `self._U_param['tau']`) become symbols named by
    their source text."""
    if isinstance(node, ast.Constant):
        if isinstance(node.value, (int, float, complex)) and not isinstance(node.value, bool):
            return Poly.const(node.value)
        raise NotPoly('constant %r' % (node.value, ))
    if isinstance(node, ast.Name):
        if node.id in env:
            return env[node.id]
        return Poly.sym(node.id)
    if isinstance(node, (ast.Attribute, ast.Subscript)):
        return Poly.sym(ast.unparse(node))
    if isinstance(node, ast.UnaryOp):
        v = eval_poly(node.operand, env, opaque_calls)
        if isinstance(node.op, ast.USub):
            return -v
        if isinstance(node.op, ast.UAdd):
            return v
        raise NotPoly('unary op')
    if isinstance(node, ast.BinOp):
        if isinstance(node.op, ast.Pow):
            base = eval_poly(node.left, env, opaque_calls)
            ex = eval_poly(node.right, env, opaque_calls)
            if ex.is_const() and ex.const_value().im == 0 and \
                    ex.const_value().re.denominator == 1 and 0 <= ex.const_value().re <= 8:
                r = Poly.const(1)
                for _ in range(int(ex.const_value().re)):
                    r = r * base
                return r
            raise NotPoly('non-integer power')
        a = eval_poly(node.left, env, opaque_calls)
        b = eval_poly(node.right, env, opaque_calls)
        if isinstance(node.op, ast.Add):
            return a + b
        if isinstance(node.op, ast.Sub):
            return a - b
        if isinstance(node.op, ast.Mult):
            return a * b
        if isinstance(node.op, ast.Div):
            return a.div(b)
        raise NotPoly('binary op %s' % type(node.op).__name__)
    if isinstance(node, ast.Call) and opaque_calls:
        return Poly.sym(ast.unparse(node))
    raise NotPoly('expression %s' % ast.unparse(node))
