"""Per-axis carriers of a tensor (legs, labels, block-index columns, block shapes) and the slices
taken of them.

A function that cuts or joins the axes of its operands must cut every carrier at the same
position. `slice_bounds(func)` collects, from the (normal-form) function, every slice
`X.legs[lo:hi]`, `X._labels[lo:hi]`, `X._qdata[rows, lo:hi]`, `X.shape[lo:hi]` and returns the
bounds as exact polynomials (negative literal bounds are counted from `X.rank`), so that
`a.legs[:cut_a]`, `a._labels[:a.rank - axes]` and `a.legs[:-axes]` are recognised as the same cut.
"""
import ast

from .linform import NotPoly, Poly, eval_poly

CARRIERS = {'legs': 'legs', '_labels': 'labels', '_qdata': 'qdata', 'shape': 'shape'}


class Cut:
    def __init__(self, operand, carrier, lo, hi, node):
        self.operand, self.carrier, self.lo, self.hi, self.node = operand, carrier, lo, hi, node

    def __repr__(self):
        return '<%s.%s[%r:%r]>' % (self.operand, self.carrier, self.lo, self.hi)


def _bound(e, operand, env):
    """Poly of a slice bound; `-k` means rank - k"""
    if e is None:
        return None
    p = eval_poly(e, env, opaque_calls=True)
    if isinstance(e, ast.UnaryOp) and isinstance(e.op, ast.USub):
        p = Poly.sym('%s.rank' % operand) + p
    return p


def slice_bounds(func, env=None):
    """list of Cut for every slice of a carrier attribute of a plain name"""
    env = env or {}
    out = []
    for n in ast.walk(func):
        if not isinstance(n, ast.Subscript):
            continue
        v = n.value
        if not (isinstance(v, ast.Attribute) and isinstance(v.value, ast.Name) and
                v.attr in CARRIERS):
            continue
        sl = n.slice
        if isinstance(sl, ast.Tuple) and len(sl.elts) == 2 and v.attr == '_qdata':
            sl = sl.elts[1]
        if not isinstance(sl, ast.Slice) or sl.step is not None:
            continue
        try:
            lo = _bound(sl.lower, v.value.id, env)
            hi = _bound(sl.upper, v.value.id, env)
        except NotPoly:
            continue
        out.append(Cut(v.value.id, CARRIERS[v.attr], lo, hi, n))
    return out


def single_cut(cuts, operand, kept='prefix'):
    """(polynomial, problems): all slices of `operand`'s carriers are prefixes [:P] / suffixes
    [P:] at ONE position P"""
    pos = {}
    for c in cuts:
        if c.operand != operand:
            continue
        if c.lo is None and c.hi is not None:
            pos.setdefault(repr(c.hi), (c.hi, []))[1].append(c)
        elif c.hi is None and c.lo is not None:
            pos.setdefault(repr(c.lo), (c.lo, []))[1].append(c)
        elif c.lo is not None and c.hi is not None:
            pos.setdefault(repr(c.lo), (c.lo, []))[1].append(c)
            pos.setdefault(repr(c.hi), (c.hi, []))[1].append(c)
    return pos
