"""Ownership analysis (R-OWN): non-in-place functions do not write in place through anything that
may be an operand (or shared with one).

Abstract origin of a value:
  'F' fresh (allocated by this function; deep)          'S' shallow copy of an operand
  'P' may be an operand / reachable from one (alias)    'U' unknown (never flagged)
Definitions are collected flow-insensitively per function (sa.core.local_defs); the precedence of
"re-bound to a fresh value before the in-place write" is decided on the CFG (must-precede).
"""
import ast

from .cfg import CFG
from .core import (assigned_targets, body_nodes, call_name, dotted, kwarg, local_defs, params,
                   parent, stmts_of, unparse)

ORDER = {'F': 0, 'U': 1, 'S': 2, 'P': 3}


def join(a, b):
    return a if ORDER[a] >= ORDER[b] else b


NP_FRESH = {'array', 'zeros', 'ones', 'empty', 'arange', 'eye', 'diag', 'concatenate', 'append',
            'stack', 'hstack', 'vstack', 'delete', 'cumsum', 'sort', 'lexsort', 'argsort', 'sum',
            'prod', 'mod', 'compress', 'take', 'where', 'nonzero', 'argwhere', 'repeat', 'tile',
            'logical_and', 'logical_not', 'logical_or', 'greater_equal', 'indices', 'mgrid',
            'zeros_like', 'ones_like', 'empty_like', 'full', 'outer', 'kron', 'dot', 'tensordot',
            'conj', 'abs', 'sqrt', 'exp', 'log', 'choose', 'unique', 'insert', 'copy', 'result_type',
            'promote_types', 'all', 'any', 'max', 'min', 'trace', 'ix_', 'unravel_index',
            'argmax', 'count_nonzero', 'negative', 'multiply', 'add', 'square', 'mean', 'roll'}
NP_ALIAS = {'asarray', 'ascontiguousarray', 'asfortranarray', 'reshape', 'transpose', 'swapaxes',
            'squeeze', 'atleast_1d', 'atleast_2d', 'ravel', 'real', 'imag', 'asanyarray',
            'moveaxis', 'expand_dims', 'broadcast_to', 'PyArray_DATA', 'PyArray_BYTES',
            'PyArray_GETCONTIGUOUS'}
ALIAS_METHODS = {'reshape', 'view', 'swapaxes', 'transpose', 'squeeze', 'ravel'}
FRESH_METHODS = {'copy_deep', 'tolist', 'flatten', 'sum', 'conjugate', 'nonzero', 'keys', 'values',
                 'items', 'get_block_sizes', 'to_ndarray', 'to_qflat', 'get_leg_labels'}
MUTATORS = {'append', 'extend', 'insert', 'pop', 'remove', 'sort', 'fill', 'clear', 'reverse',
            'update', 'setdefault', 'itemset', 'resize', 'put'}
CONSTRUCTORS = {'Array', 'LegCharge', 'LegPipe', 'ChargeInfo', 'zeros', 'ones', 'diag', 'eye_like',
                'from_ndarray', 'from_ndarray_trivial', 'from_func', 'from_func_square',
                'from_qflat', 'from_qind', 'from_qdict', 'from_trivial', 'from_add_charge',
                'from_drop_charge', 'from_change_charge', 'list', 'dict', 'set', 'tuple', 'sorted',
                'range', 'zip', 'enumerate', 'reversed', 'int', 'float', 'len', 'str', 'bool',
                'MPS', 'MPO'}
# results that are documented to possibly be the operand itself
MAY_RETURN_OPERAND = {'_transpose_same_labels', 'shift_charges', 'shift_charges_horizontal',
                      'as_completely_blocked', 'sort', 'bunch', 'to_iterable', 'to_iterable_arrays',
                      'asConfig'}
# in-place calls that only re-order / re-layout storage: observably nothing changes
BENIGN_INPLACE = {'isort_qdata', '_imake_contiguous', 'test_sanity', 'test_equal',
                  'test_contractible'}
OWN_LISTS = {'legs', '_labels'}
LIST_ATTRS = {'legs', '_labels', '_data', 'sites', '_B', '_S', '_W', 'form'}


class FuncInfo:
    def __init__(self, func, qual, cls_inplace):
        self.func = func
        self.qual = qual
        self.params = [a.arg for a in func.args.posonlyargs + func.args.args +
                       func.args.kwonlyargs]
        if func.args.vararg:
            self.params.append(func.args.vararg.arg)
        if func.args.kwarg:
            self.params.append(func.args.kwarg.arg)
        self.defs = local_defs(func)
        self.inplace_self = cls_inplace
        self._memo = {}
        self._cfg = None

    def cfg(self):
        if self._cfg is None:
            self._cfg = CFG(self.func)
        return self._cfg


class Own:
    def __init__(self, module, inplace_names, ret_summaries=None):
        self.m = module
        self.inplace_names = inplace_names
        self.ret = ret_summaries or {}

    # ---- origin
    def origin(self, fi, node, depth=0):
        if depth > 12:
            return 'U'
        if isinstance(node, ast.Constant):
            return 'F'
        if isinstance(node, ast.Name):
            key = ('n', node.id)
            if key in fi._memo:
                return fi._memo[key]
            fi._memo[key] = 'U'  # cycle guard
            if node.id in fi.params:
                if node.id == 'self' and fi.inplace_self:
                    r = 'F'
                elif node.id in ('cls', ):
                    r = 'F'
                else:
                    r = 'P'
                # a parameter re-bound locally: the fresh re-binding does not help writes that
                # may happen before it, so keep the worst of both
                for v in fi.defs.get(node.id, []):
                    pass
            else:
                r = None
                for v in fi.defs.get(node.id, []):
                    o = self.origin_of_def(fi, node.id, v, depth + 1)
                    r = o if r is None else join(r, o)
                if r is None:
                    r = 'U'
            fi._memo[key] = r
            return r
        if isinstance(node, ast.Attribute):
            o = self.origin(fi, node.value, depth + 1)
            if o == 'S':
                return 'F' if node.attr in OWN_LISTS else 'P'
            return o
        if isinstance(node, ast.Subscript):
            o = self.origin(fi, node.value, depth + 1)
            # fancy indexing with a list/array literal gives a fresh array
            if isinstance(node.slice, (ast.List, ast.ListComp)):
                return 'F'
            # slicing a python list attribute copies the list (legs, _labels, _data are lists)
            if isinstance(node.slice, ast.Slice) and isinstance(node.value, ast.Attribute) and \
                    node.value.attr in LIST_ATTRS:
                return 'F'
            return o
        if isinstance(node, ast.Starred):
            return self.origin(fi, node.value, depth + 1)
        if isinstance(node, ast.IfExp):
            return join(self.origin(fi, node.body, depth + 1),
                        self.origin(fi, node.orelse, depth + 1))
        if isinstance(node, (ast.BinOp, ast.UnaryOp, ast.Compare, ast.BoolOp, ast.List, ast.Tuple,
                             ast.Dict, ast.Set, ast.ListComp, ast.DictComp, ast.SetComp,
                             ast.GeneratorExp, ast.JoinedStr, ast.Lambda)):
            return 'F'
        if isinstance(node, ast.Call):
            return self.origin_call(fi, node, depth + 1)
        return 'U'

    def origin_of_def(self, fi, name, value, depth):
        # `for x in coll` / comprehension targets are bound to the iterable: elements of an
        # operand collection are operands
        return self.origin(fi, value, depth)

    def origin_call(self, fi, c, depth):
        fn = c.func
        name = call_name(c)
        d = dotted(fn) or ''
        if isinstance(fn, ast.Attribute):
            recv = fn.value
            if d.startswith('np.') or d.startswith('numpy.'):
                if name in NP_ALIAS:
                    return self.origin(fi, c.args[0], depth) if c.args else 'U'
                if name in NP_FRESH:
                    return 'F'
                return 'U'
            if name == 'copy':
                deep = kwarg(c, 'deep')
                if deep is None and c.args:
                    deep = c.args[0]
                if deep is None or (isinstance(deep, ast.Constant) and deep.value is True):
                    return 'F'
                return 'S' if self.origin(fi, recv, depth) in ('P', 'S') else 'F'
            if name == 'astype':
                cp = kwarg(c, 'copy')
                if cp is None and len(c.args) > 1:
                    cp = c.args[1]
                if cp is not None and isinstance(cp, ast.Constant) and cp.value is False:
                    return self.origin(fi, recv, depth)
                if cp is not None and not isinstance(cp, ast.Constant):
                    return self.origin(fi, recv, depth)
                return 'F'
            if name in self.inplace_names or name in ALIAS_METHODS:
                return self.origin(fi, recv, depth)
            if name in MAY_RETURN_OPERAND:
                return self.origin(fi, recv, depth) if not isinstance(recv, ast.Name) or \
                    recv.id not in ('np', 'npc', 'charges') else (
                        self.origin(fi, c.args[0], depth) if c.args else 'U')
            if name in FRESH_METHODS or name in CONSTRUCTORS:
                return 'F'
            if name in self.ret:
                r = self.ret[name]
                if r in ('S', 'P'):
                    ro = self.origin(fi, recv, depth)
                    # a shallow copy / alias of a fresh object is as good as fresh
                    return r if ro in ('P', 'S') else ro
                return r
            if name in ('get', 'pop', 'setdefault'):
                return self.origin(fi, recv, depth)
            return 'U'
        if isinstance(fn, ast.Name):
            if name == '__addr__' and c.args:
                return self.origin(fi, c.args[0], depth)
            if name in CONSTRUCTORS:
                return 'F'
            if name in MAY_RETURN_OPERAND:
                return self.origin(fi, c.args[0], depth) if c.args else 'U'
            if name in self.ret:
                r = self.ret[name]
                if r in ('S', 'P'):
                    worst = 'F'
                    for a in c.args:
                        worst = join(worst, self.origin(fi, a, depth))
                    return r if worst in ('P', 'S') else worst
                return r
            return 'U'
        return 'U'

    # ---- write sites
    def write_sites(self, fi):
        """yield (stmt, kind, root expr, attr or None, description)
        kind: 'rebind' (X.attr = v) | 'deep' (in-place through X.attr / a name) | 'icall'"""
        f = fi.func
        for st in stmts_of(f):
            if isinstance(st, (ast.Assign, ast.AugAssign, ast.AnnAssign)):
                for t in assigned_targets(st):
                    aug = isinstance(st, ast.AugAssign)
                    if isinstance(t, ast.Attribute):
                        if aug:
                            yield st, 'deep', t.value, t.attr, unparse(t) + ' op= ...'
                        else:
                            yield st, 'rebind', t.value, t.attr, unparse(t) + ' = ...'
                    elif isinstance(t, ast.Subscript):
                        base = t.value
                        while isinstance(base, ast.Subscript):
                            base = base.value
                        if isinstance(base, ast.Attribute):
                            yield st, 'deep', base.value, base.attr, unparse(t) + ' = ...'
                        elif isinstance(base, ast.Name):
                            yield st, 'deep', base, None, unparse(t) + ' = ...'
            if isinstance(st, ast.Delete):
                for t in st.targets:
                    if isinstance(t, ast.Subscript):
                        base = t.value
                        if isinstance(base, ast.Attribute):
                            yield st, 'deep', base.value, base.attr, 'del ' + unparse(t)
                        elif isinstance(base, ast.Name):
                            yield st, 'deep', base, None, 'del ' + unparse(t)
        for c in body_nodes(f):
            if not isinstance(c, ast.Call):
                continue
            fn = c.func
            if isinstance(fn, ast.Attribute):
                nm = fn.attr
                st = c
                while not isinstance(st, ast.stmt):
                    st = parent(st)
                if nm in MUTATORS and not (dotted(fn) or '').startswith('np.'):
                    if nm == 'sort' and not (isinstance(st, ast.Expr) and st.value is c):
                        continue  # LegCharge.sort()/np-style sort returning a value
                    recv = fn.value
                    if isinstance(recv, ast.Attribute):
                        yield st, 'deep', recv.value, recv.attr, unparse(c)[:60]
                    elif isinstance(recv, ast.Name):
                        yield st, 'deep', recv, None, unparse(c)[:60]
                elif nm in self.inplace_names and nm not in BENIGN_INPLACE:
                    yield st, 'icall', fn.value, nm, unparse(c)[:60]
                elif (dotted(fn) or '') in ('np.put', 'np.copyto', 'np.place', 'np.fill_diagonal') \
                        and c.args:
                    a0 = c.args[0]
                    if isinstance(a0, ast.Attribute):
                        yield st, 'deep', a0.value, a0.attr, unparse(c)[:60]
                    elif isinstance(a0, ast.Name):
                        yield st, 'deep', a0, None, unparse(c)[:60]

    def origin_at(self, fi, stmt, root):
        """origin of `root` at `stmt`: for a parameter that is re-bound on every path before the
        statement, the origin of the re-binding value (`a = a.copy(deep=False)`)"""
        o = self.origin(fi, root)
        base = root
        while isinstance(base, (ast.Attribute, ast.Subscript)):
            base = base.value
        if o != 'P' or not isinstance(base, ast.Name):
            return o
        name = base.id
        cfg = fi.cfg()
        best = None
        for val in fi.defs.get(name, []):
            vo = self.origin(fi, val)
            if vo == 'P':
                # `a = a.copy(deep=False)` evaluates the right side with the old binding
                continue

            def pred(n, val=val):
                s = n.stmt
                return isinstance(s, ast.Assign) and s.value is val
            if cfg.dominators_like_before(stmt, pred):
                best = vo if best is None else join(best, vo)
        if best is None:
            return o
        if root is base:
            return best
        # attribute of the re-bound object
        if best == 'S':
            first = root
            while isinstance(first.value, (ast.Attribute, ast.Subscript)):
                first = first.value
            if isinstance(first, ast.Attribute) and first.attr in OWN_LISTS:
                return 'F'
            return 'P'
        return best

    def fresh_rebound_before(self, fi, stmt, root, attr):
        """is `root.attr` re-bound to a fresh value on every path before stmt?"""
        rn = unparse(root)
        cfg = fi.cfg()

        def pred(n):
            s = n.stmt
            if not isinstance(s, ast.Assign):
                return False
            for t in s.targets:
                for e in (t.elts if isinstance(t, ast.Tuple) else [t]):
                    if isinstance(e, ast.Attribute) and e.attr == attr and unparse(e.value) == rn:
                        return self.origin(fi, s.value) == 'F'
                    # chained `x = obj.attr = fresh`
            return False
        return cfg.dominators_like_before(stmt, pred)

    def name_rebound_fresh_before(self, fi, stmt, name):
        cfg = fi.cfg()

        def pred(n):
            s = n.stmt
            if isinstance(s, ast.Assign):
                for t in s.targets:
                    for e in (t.elts if isinstance(t, ast.Tuple) else [t]):
                        if isinstance(e, ast.Name) and e.id == name:
                            # origin of the value with the parameter itself still 'P'
                            return self.origin(fi, s.value) == 'F'
            return False
        return cfg.dominators_like_before(stmt, pred)
