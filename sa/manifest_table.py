"""Per-property claims (kept in sync with DESIGN.md §4/§5)."""

PARTIAL = ('Decides, on every run and from the current source, the structural clauses named '
           'here; it does NOT decide the numerical/behavioural residue of the property. ')


def fill(claim, na):
    claim('C20', 'CFG must-follow/must-precede path rules + coupled-update + value-depends-on-'
          'parameter dataflow over thread.py/cache.py/events.py',
          PARTIAL + 'Worker get/task_done pairing on all paths incl. exceptional, timeouts and '
          'liveness checks around every blocking queue call, exit-flag protocol; ThreadedStorage '
          'waiting/load-task pairing, FIFO-only disk access, read-after-join, close order; '
          'DictCache: every place __getitem__ returns from is updated by __setitem__ and '
          'invalidated by __delitem__; EventHandler: disconnect guard depends on listener_id, id '
          'allocation, emit after a stable descending-priority sort. Linearizability over all '
          'schedules is not decided.',
          'trusts CPython ast, the hand-built CFG (sa/cfg.py), documented semantics of '
          'queue.Queue/threading.Event; name-based resolution of self.<attr> calls', 'C20')
    claim('C14', 'MRO-resolved call-closure counting of accumulator stores per engine class + '
          'exact symbolic (polynomial) Suzuki-Trotter sums + time-argument table agreement + '
          'result-flow (R-ERRFLOW) over algorithm.py/tebd.py/tdvp.py/mpo_evolution.py',
          PARTIAL + 'For every concrete TimeEvolutionAlgorithm subclass exactly one function on '
          'the resolved run_evolution->evolve path adds the step errors to trunc_err and exactly '
          'one advances evolved_time by N_steps*step outside loops; the Suzuki-Trotter schedule x '
          'coefficient tables sum to N_steps for every order and bond family (exhaustive, exact); '
          'TEBD gate exponent = -i*tau*H, ExpMPO make_U arguments sum to -i*dt, TDVP '
          'forward/backward half steps cancel and the doubled site is the one visited once; every '
          'truncation error produced reaches the returned sum. Convergence order and '
          'norm/energy/charge conservation are not decided.',
          'trusts python ast, statically computed C3 MRO, sa/linform.py exact polynomial '
          'arithmetic; name-based producer table for error-returning calls', 'C14')
    claim('C18', 'exhaustive typestate (abstract interpretation of save_results over file states, '
          'closed under crash and restart) + CFG order rules + writer/reader key agreement',
          PARTIAL + 'First sentence: the file effects (exists/unlink/rename/write) are extracted '
          'from the current source of Simulation.save_results and executed over all reachable '
          '(output, backup) states in {absent, unloadable, complete}^2 with a crash after every '
          'effect and inside the write; from every state holding a complete file every crash '
          'point must keep one (exhaustive). Second sentence, partially: ordering of '
          'run/resume_run (no duplicate initial measurement, measurements connected, '
          'final save), checkpoint connection, SIGINT save-before-raise, measurement arrays '
          'restored to lists, resume_data keys read unconditionally are written along the MRO. '
          'Equality of resumed and uninterrupted numerical results is not decided.',
          'file system crash-consistent per operation (rename/unlink atomic, hdf5_io.save '
          'non-atomic); safe_write=False excluded as documented unsafe', 'C18')
    claim('C17', 'writer/reader table agreement by branch-sensitive path enumeration of '
          'save_hdf5/from_hdf5 (super() inlined, format discriminators matched) + state-tuple '
          'agreement + exact-callee arity check + dispatch-table/memo CFG rules + __new__-object '
          'typestate',
          PARTIAL + 'For every class offering HDF5 export (discovered from the class table on '
          'each run): keys read unconditionally by from_hdf5 are written by save_hdf5 on every '
          'compatible branch and format; a key saved from self.X is restored into .X; saved '
          'attributes are restored; __getstate__/__setstate__ agree in arity and order; exactly '
          'resolved calls in the save/load code pass acceptable arguments; every type tag a saver '
          'writes has a loader; savers/loaders memorize (sharing, cycles); the pickle-protocol '
          'fallback stores each __reduce__ element under its own key; None-default attributes are '
          'not subscripted when saving; methods called on a __new__ object while loading read '
          'only attributes already assigned. Equality of numerical payloads is not decided.',
          'trusts python ast, statically computed MRO, h5py/pickle semantics; keys built '
          'dynamically (loops) are treated as unknown, not as violations', 'C17')
    claim('C15', 'structural rules over truncate()/_combine_constraints/svd_theta: '
          'argument-role, ordering vs. docstring table, guard/option dependence, polynomial slice '
          'bounds, same-mask pairing, result-flow',
          PARTIAL + 'The constraint pipeline of truncate(): mask starts all-True and is only '
          'updated by _combine_constraints with the accumulated mask FIRST (priority), constraints '
          'are combined in the documented order (read from the docstring), each under a test of '
          'its own option, _combine_constraints falls back to its first argument, chi_max/chi_min '
          'slices have the exact symbolic bounds, comparison directions, kept set = suffix of the '
          'ascending order, norm and error computed from one mask and its complement; '
          'svd_theta/_eig_based_svd/eigh_rho: same mask for S, U, VH with axes 1/0, '
          'renormalisation multiplied by the kept norm, the error of truncate() is what is '
          'returned; TruncationError arithmetic. Numerical statements about spectra are not '
          'decided.', 'trusts python ast and sa/linform.py; a few idioms are matched on '
          'normalised source text (listed in sa/rules/c15.py)', 'C15')
    claim('C02', 'forward typestate dataflow on the CFG for cached claims (Array._qdata_sorted, '
          'LegCharge.sorted/bunched) + witness rules for literal True + coupled-update rules + '
          'symbolic total-charge forms / sign-case enumeration (sa/charge.py)',
          PARTIAL + 'Truthfulness of cached claims: every write to _qdata leaves the array DIRTY '
          'until _qdata_sorted is re-stated (unless the last store was literal False); a literal '
          'True needs a derivable witness (empty / one row / lexsort applied) or an axiom-table '
          'entry; every rewrite of the charges of a copied leg re-states sorted and bunched '
          '(tables of flag-preserving transforms, one reason each). Coupled updates: chinfo only '
          'together with legs and qtotal; changed leg lists followed by _set_shape(). Total charge '
          'of results = documented function of the operands (sum / negation / difference) as exact '
          'polynomial identities; gauge_total_charge in all four direction cases. Block values and '
          'the charge rule on data produced by arithmetic are not decided.',
          'trusts python ast, the CFG, the axiom tables ORDER_PRESERVING / TRUE_CLAIMS / '
          'KEEP_SORTED / KEEP_BUNCHED in sa/rules/c02.py (one reason per entry)', 'C02')
    claim('C05', 'abstract interpretation of the factorization code over exact polynomials with '
          'exhaustive enumeration of leg-direction cases (sa/charge.py) + pairing rules',
          PARTIAL + 'Last sentence of the property: for _svd_worker, qr and orthogonal_columns the '
          'legs of every constructed factor balance its total charge in every direction case '
          '(s0, s1, inner_qconj in +-1; qtotal_Q given or None) under the hypothesis that the '
          'input obeys the charge rule, so the factors are contractible and carry exactly the '
          'requested total charges (52 obligations, exhaustive). Plus: hidden pipes are split '
          'again on the recorded axes, overwrite_a only for fresh copies, factor labels pair '
          'outer/inner, lq delegates to qr of the transpose, square-matrix routines reject '
          'non-zero total charge. Residuals, isometry, triangularity, Moore-Penrose identities are '
          'numerical and not decided.',
          'make_valid treated as identity (equalities hold modulo the charge group); loops over '
          'blocks are skipped (per-block numerics)', 'C05')
    claim('C06', 'sign-case enumeration of direction algebra + exact-polynomial fusion rule + '
          'table agreement of q_map column roles + leg-flag typestate',
          PARTIAL + 'conj / flip_charges_qconj / LegPipe.conj / outer_conj change qconj, charges '
          'and incoming legs as documented in both direction cases and preserve out = sum(in); '
          'direction-dependent merges (extend, concatenate) negate iff directions differ; no '
          'literal direction on derived legs; outgoing charges = sum self.qconj*l.qconj*l.charges '
          'with one permutation applied to q_map, charges and block sizes; consumers of q_map use '
          'the columns in their roles [start, stop, outgoing qindex, incoming qindices]; leg flags '
          're-stated after charge rewrites. Bijectivity of q_map/_perm over all leg tuples is '
          'combinatorial over data and not decided.',
          'trusts python ast, sa/linform.py; documented effects table in sa/rules/c06.py', 'C06')
    claim('C03', 'ownership (freshness) analysis of every in-place write site: abstract origins '
          'Fresh / Shallow / Operand with return-origin, deep-write and parameter-write summaries '
          'computed from the source; must-precede on the CFG for fresh re-bindings',
          PARTIAL + 'In np_conserved.py, charges.py, sparse.py, truncation.py, krylov_based.py: '
          'every attribute re-binding on a non-fresh object, subscript/augmented store, mutating '
          'container call and in-place Array method call in a function that is not in-place has a '
          'root that is Fresh, or - for shallow copies - touches only what a shallow copy owns '
          '(legs/_labels lists) or what was re-bound to a fresh value on every path before; '
          'operands are not passed to workers that write that parameter; no in-place store '
          'through X.charges / X.slices anywhere in the package; functions with an inplace flag '
          'alias self only on the inplace branch; MPS/MPO constructors store copies; tensors borrowed from a network (get_B/get_W without copy, lists of them, astype(copy=False)) are not written in place before a copy; public mps.py/mpo.py functions do not call in-place Array methods on tensors received as parameters. '
          'Observational equality of values is not needed (no write, no change) and not decided; '
          'tensors reaching an in-place call through containers/callbacks in the algorithms are '
          'not tracked.',
          'unknown origins are never flagged (may miss, does not invent); numpy view/copy table '
          'and accepted output parameters listed in sa/own.py / sa/rules/c03.py', 'C03')
    claim('C10', 'sibling-protocol agreement over the CouplingModel.add_* family (guard shape, '
          'must-precede on the CFG, value-depends-on dataflow, argument-role checks) + flag '
          'exhaustiveness of representation converters + interface/table agreement of term classes',
          PARTIAL + 'Every add_* method with a plus_hc parameter (9 siblings, derived from the '
          'class) contains the explicit_plus_hc guard (drop the explicit h.c. or halve the '
          'strength that is later used) before any term is added, and a trailing plus_hc block '
          'that adds the conjugate with np.conj(strength) and np.conj(lambda_), hc operator names, '
          'reversed geometry (u1/u2 swapped, -dx, reversed operator order) and plus_hc=False on '
          'recursion; calc_H_bond / calc_H_MPO / build_full_H_from_mpo consult or forward '
          'explicit_plus_hc; term classes implement the interface MPOGraph.from_terms uses; merge '
          'key of MultiCouplingTerms = overwritten fields; equal terms accumulate; add_* reach '
          'the Jordan-Wigner decision. Equality of the dense matrices of the representations is '
          'not decided.', 'trusts python ast, the CFG; operator-parameter names matched by the '
          'naming convention op*/ops*/opname/term', 'C10')
    claim('C12', 'coupled-update rules on the Site operator registries + parameter-family '
          'coherence dataflow + must-pass-through of Jordan-Wigner entry points + ownership of '
          'aliasing attributes',
          PARTIAL + 'add_op/remove_op/rename_op keep attribute, opnames, need_JW_string, hc_ops '
          '(both directions) and JW_exponent in step; JW need of a product name is a parity and hc '
          'of a product reverses the factors; GroupedSite puts JW on the sub-sites left of a '
          'fermionic operator with two independent working lists and forwards need_JW / hc; '
          'numbered parameter families (ops1/sites1 vs ops2/sites2) are not mixed in index '
          'expressions; loops do not use a constant element instead of the loop variable; every '
          'API placing named operators on sites (expectation_value_term, correlation_function, '
          'term_correlation_function_*, apply_local_op, term handlers, order_combine_term) reaches '
          'the Jordan-Wigner decision with the documented branch structure; TermList does not '
          'write into a strength array it may share; calls that re-compute the operators of one term '
          'pass the same JW_from_right value (reaching definitions); every local of site.py/terms.py '
          'is bound on every path before it is read. Commutators/anticommutators as dense '
          'matrices and the documented operator tables are not decided.',
          'trusts python ast; registry effects are extracted from the normal form (temporaries '
          'inlined), decision tables and guards are read off the block structure', 'C12')
    claim('C01', 'agreement of per-axis carriers (legs / labels / block-index columns / blocks) '
          'by index-set extraction + documented label propagation + operand-side (family) '
          'coherence in the blockwise merge',
          PARTIAL + 'Only the bookkeeping clauses: in itranspose, take_slice, squeeze, trace the '
          'legs, labels and block-index columns of the result are re-indexed with ONE index set; '
          'tensordot/_tensordot_worker/outer cut legs, labels and block indices at the same '
          'positions; duplicate labels dropped on both sides; conj maps every label; pipe labels '
          'combine exactly the legs of that pipe and split labels replace them from the back; '
          'add_leg/add_trivial_leg insert leg, label, column and block axis at one position; in '
          'ibinary_blockwise the first argument of func always comes from self and the second '
          'from other (zeros standing in for a missing block of that side), after sorting both '
          'block lists and aligning labels. That dense values equal numpy results is arithmetic '
          'over run-time data and is NOT decided.',
          'several label rules match normalised statements of the current implementation (listed '
          'in sa/rules/c01.py): a behaviour-preserving rewrite of those statements needs the rule '
          'table updated', 'C01')
    claim('C07', 'typestate of canonical forms on direct flows (producer of a stored tensor = '
          'output k of a factorization, followed through relabel/split) + side pairing + table',
          PARTIAL + 'Weak, bookkeeping only: every set_B(i, X, form=F) in mps.py and the '
          'algorithms whose X is (a relabelled/split version of) the U/Q output of npc.svd / '
          'svd_theta / npc.qr records form A, a VH output form B; get_B scales vL with the left '
          'and vR with the right singular values by the change of the respective exponent; '
          'tensors rebuilt through get_B(form=F) come with self.form = F or form=None; table of '
          'forms (A,B,C,G,Th); structure of canonical_form_finite, convert_form, get_theta, '
          'entanglement_entropy; accumulated segment boundary matrices are composed with the old '
          'matrix as the outer operand; destination index lists from map_incoming_flat are '
          'scattered or inverted, never gathered with. Nothing about the represented vector, Schmidt values or '
          'entropies is decided.', 'flows through containers, callbacks or arithmetic are not '
          'tracked; several structure checks match normalised statements', 'C07')
    claim('C09', 'coupled-update / read-after-replace ordering of the per-site lists + form-flow '
          'typestate + bond-list re-indexing rule + sided-family coherence + result-flow of '
          'truncation errors',
          PARTIAL + 'Functions that replace sites/form/_B/_S replace all four and never evaluate '
          'an accessor (get_B, get_SL, get_site, ...) that reads a list already replaced by its '
          're-indexed version; tensors rebuilt with get_B(form=F) need self.form=F or form=None; '
          'direct re-indexing of the bond list distinguishes finite (L+1 bonds) from infinite (L '
          'bonds); swap_sites builds the fermionic sign with the left site as slow index and '
          'exchanges the sites, spatial_inversion swaps all sided quantities; a per-element '
          'decision is not taken inside `if flag is None` in a loop; truncation errors of '
          'swap/permute/compress reach the returned value; norm tracking and JW string in '
          'apply_local_op. That the transformed state equals the dense image is not decided.',
          'accessor read-sets are a frozen table (ACCESSOR_READS in sa/rules/c09.py)', 'C09')
    claim('C04', 'sibling agreement between each @use_cython pair: Cython parse tree of the .pyx '
          '(parser of the repository venv) lowered to python ast, then signature / effect-set / '
          'flag / raise / mutated-argument comparison; staleness guard on the generated C++',
          PARTIAL + 'The pair list is derived from the decorators on every run (16 today). For '
          'each pair: the replacement exists under the bound name; parameter names, order and '
          'defaults agree; the sets of attributes updated on each parameter and on the returned '
          'object agree (same-module helpers inlined, setter calls normalised; table of benign '
          'differences with reasons); stated sortedness constants agree; raised exception classes '
          'agree; the sets of arguments that may be written in place agree (pointer-level C '
          'helpers via a frozen write-through table). The python caller handles the trivial cases '
          'the compiled tensordot worker does not. Cached-claim typestate (C02) also runs on the '
          'pyx functions. Second sentence of the property: every source line cited in the '
          'generated _npc_helper.cpp equals the current .pyx line, otherwise the compiled '
          'configuration runs code that is not in the tree (reported as stale extension). '
          'Numerical equality of BLAS-batched and numpy results is not decided.',
          'trusts Cython.Compiler.Parsing, the lowering in sa/pyx.py (C pointer helpers are '
          'opaque), and that the .so was built from the .cpp next to it', 'C04')
    claim('C16', 'sibling-loop agreement (loop bodies abstracted to sequences of vector effects, '
          'compared up to rotation) + attribute-discipline and adjoint rules on the wrapper '
          'operators + energy-shift pairing',
          PARTIAL + 'The clause "the result does not depend on how many basis vectors are kept in '
          'memory": the loop of _rebuild_krylov_for_result_full performs the same recurrence as '
          '_build_krylov (same effects on w, same reortho/elif branch structure, coefficients read '
          'from h[k,k] / h[k,k+1] where the first pass stored them), and the final sum pairs '
          'cache[-k] with vf[N-k] and the rebuilt vectors with vf[k+1]. Wrapper operators (Sum, '
          'Shift, Boost, Orthogonal) read in matvec/adjoint only attributes their own __init__ '
          'defines (anything else falls through __getattr__), adjoint() conjugates scalars and '
          'adjoints operators, P H P projects before and after on a copy; E_shift is added inside '
          'an orthogonal projection and subtracted from the returned energy; Arnoldi insists on a '
          'full cache; the Krylov cache is emptied between runs and vectors read back from it are '
          'never updated in place; the energy shift is removed on every exit that returns the '
          'energy; Gram-Schmidt structure. Rayleigh quotients, residuals and convergence are '
          'not decided.', 'loop bodies are compared after canonicalising the work vector, loop '
          'index and coefficient roles; index expressions as exact polynomials', 'C16')
    claim('C19', 'closed computation on literal tables: whitelisted constant folder over the AST '
          'of the lattice constructors + override-pairing over the class table',
          PARTIAL + 'The clause "predefined neighbour lists match the Euclidean distances of the '
          'site positions": for Chain, Ladder, Square, Triangular, Honeycomb, Kagome (20 '
          'categories) the literal basis, unit-cell positions and pair lists are folded from the '
          'AST; all pairs of a category have one length, category k is the k-th smallest distinct '
          'distance, the list is complete per unit cell up to (u1,u2,dx)~(u2,u1,-dx) and free of '
          'duplicates, unit-cell indices in range (exhaustive). Inverse-pair methods '
          '(mps2lat_idx/lat2mps_idx, possible_couplings/possible_multi_couplings, '
          'save_hdf5/from_hdf5, ...) are overridden together in every subclass; ordering() falls '
          'through to the parent; the order setter recomputes the inverse permutation; a mask derived '
          'from coordinate arrays is not applied to them after an in-place update (possible_'
          'couplings boundary filter); species/unit-cell index combinations use the radix of '
          'their minor index. '
          'Bijectivity of the index maps and exactness of possible_couplings over all orderings '
          'and boundary conditions are not decided.',
          'NLegLadder excluded (topological neighbours by documentation); derived lattices '
          '(MultiSpecies, Irregular, Helical) have no literal tables', 'C19')
    claim('C11', 'exhaustiveness of flag handling over the methods of MPO (closure over self-calls) '
          '+ table agreement of identity indices and leg labels + result-flow of truncation errors',
          PARTIAL + 'Every MPO method that uses the W tensors mentions explicit_plus_hc, builds an '
          'MPOEnvironment / MPOTransferMatrix (which handle it), delegates to such a method, or is '
          'in the table of structure-only methods (one reason each; to_TermList and prefactor are '
          'documented debugging aids on the stored terms); extract_segment and __add__ forward / '
          'compare the flag, dagger() and make_U_I/II treat it explicitly; identity indices from '
          'get_IdL slice wL legs and those from get_IdR wR legs; truncation errors of apply / '
          'apply_zipup / compress reach the returned value; apply() dispatches every documented '
          'compression method; the range of a sum is unknown as soon as one summand has unknown '
          'range (decision table); raw max_range is not read next to its sanitised copy; stored '
          'identity indices are reduced modulo the bond dimension before equality tests; inner '
          'range limits are not narrowed across outer iterations. Operator values and the scaling of propagator errors with t are '
          'not decided.', 'name-based resolution of self-calls inside MPO', 'C11')
    claim('C13', 'protocol agreement per concrete Sweep subclass (MRO-resolved hooks, returned '
          'dict keys vs hook parameters) + symbolic list lengths (polynomials in L, n) + '
          'must-follow of the explicit_plus_hc wrap after every effective-Hamiltonian construction',
          PARTIAL + 'Weak, protocol only: for every concrete engine (DMRG x3, TDVP x4, VUMPS x2, '
          'variational compression x4) the dict returned by the resolved update_local has a key '
          'for every named parameter of the resolved post_update_local and every '
          'update_data[...] read of update_env; the zipped lists of every get_sweep_schedule have '
          'equal symbolic length; every construction of an effective Hamiltonian (OneSiteH, '
          'TwoSiteH, ZeroSiteH, self.EffectiveH, ZeroSiteH.from_LP_RP) in the algorithms is '
          'followed in the same function by the wrap Sum(H, H.adjoint()) under explicit_plus_hc '
          'or an assertion on the flag; environment index pairing (del_LP(i_R)/del_RP(i_L), '
          'update_LP from U / update_RP from VH), hook order in Sweep.sweep, orthogonal projection '
          'outermost, mixer weights; block insertion into a zeros_like tensor is preceded by the '
          'dtype promotion with the data source. Energies, convergence and canonical form of the result are '
          'numerical and not decided.', 'hook dictionaries assembled through containers other '
          'than dict literals / update_data[...] stores are treated as opaque (not flagged)', 'C13')
    na('C08', 'every clause quantifies over numerical values (expectation values, overlaps, Born '
       'weights); the only structural part (Jordan-Wigner routing of measurement entry points) is '
       'decided under C12')


# clauses added in later rounds (rules written against independently seeded changes); appended to
# the scope text of the claim, inserted before the final "not decided" sentence's position is not
# needed: they are stated as additional decided structural clauses.
EXTRA = {
    'C01': 'Also: result dtype of concatenate is accumulated over ALL operands (no last-wins '
           'update in the loop); `A[inds] = B` zeroes the addressed blocks unconditionally '
           'before copying; index bounds are inclusive (index == size rejected). A slice bound -E is reached only under conditions that exclude E == 0 (propositional decision over the enclosing tests and early exits, or at every call site of the private worker) (SLICE-neg-zero). One-for-many list splices at the loop variable run over descending positions; the default position of a combined leg does not depend on the order of the groups; a tensor permuted with Array.permute is rewritten in the blocks of its partner before a block-by-block leg comparison.',
    'C02': 'Also: a leg that keeps only some rows of the charges (project) inherits `bunched` '
           'only under a witness, never from the old flag alone. Every self.X read in charges.py / np_conserved.py names an attribute bound in the class family (ATTR-defined). The dtype claim of a blockwise result follows all blocks (DTYPE-blocks). The list _data shared with shallow copies changes its length only by re-binding (COUPLED-shared-list, positive control); numpy-constructed blocks carry the declared dtype; isort_qdata / _imake_contiguous never permute shared storage in place.',
    'C03': 'Also: helpers that normalise a list argument never hand the caller\'s own list back '
           'into a stored attribute (MPO._get_Id). In classes with a shallow copy() no method replaces one per-site list and element-updates a sibling list (COPY-mixed-update). get_theta returns a get_B result only with copy=True; state-changing MPS methods (transitive closure) are only called on copies of operand states; the \'benign in-place\' assumption of the ownership analysis is itself checked (OWN-benign-rebind).',
    'C04': 'Also: where both twins sweep an array with counted loops, the swept index regions '
           '(first / last index as polynomials of the loop bounds) agree (PAIR-regions); a '
           'transposition skipped under a comparison with range(..) must be guarded by a test '
           'that sees the order of every sequence the permutation is built from '
           '(PAIR-skip-transpose). An error that both twins raise is raised under the same conditions (PAIR-raise-guards); the first and the accumulating BLAS call of a block product use the same transposition options (PAIR-accumulate-options). In every kernel (python and pyx) the transposition of an operand precedes the sort of its block list and the leg comparison; in-place updates both twins perform have the same branch conditions; __setstate__ derives python-only cached fields like __init__.',
    'C05': 'Also: hidden pipes of U and VH are split independently of each other; the number of '
           'inner indices marked per block comes from the factor actually produced, not from '
           'the input block shape. dtype never in an integer slot of np.eye / np.tri / np.diag (FACT-numpy-roles). Generic exact dataflow facts on the anchor files: no result of a call is bound to a local that reaches no read (VALUE-dead, reaching definitions on the CFG). The polynomial charge interpreter also runs the full_matrices=True branch of _svd_worker (diagonal blocks, case split over np.any(qtotal != 0)); every charge sector gets a block in the full unitaries (FACT-full-unitary); values left by a search loop are re-assigned on the not-found path; the R factor returned by qr_li is triangular on every path (typestate). The fallback LAPACK call receives every option of the primary call; no x / |x| of a possibly vanishing diagonal entry in qr.',
    'C06': 'Also: split_legs works on the sorted list of axes; a pipe replaced inside the loop '
           'over given pipes is written back to the list that is returned. Generic exact dataflow facts on the anchor files: no result of a call is bound to a local that reaches no read (VALUE-dead, reaching definitions on the CFG). One permutation re-orders co-indexed arrays by gather or by scatter, not both; blocks are reshaped in C order only (positive control).',
    'C07': 'Also: a one-site read-modify-write through get_B/set_B is not separated by a write '
           'to another (possibly identical) site; _scale_axis_B applies S**form_diff for every '
           'value form_diff is compared with (finite case analysis over -1, -1/2, 0, 1/2, 1). dtypes of operators over a list of tensors (TransferMatrix) are promoted over all elements; stored tensors that enlarge_mps_unit_cell shares between sites are re-bound, not updated in place. Generic exact dataflow facts on the anchor files: no result of a call is bound to a local that reaches no read (VALUE-dead, reaching definitions on the CFG); every self.X read names an attribute bound in the class family (ATTR-defined). A bond leg is read from the side of the tensor that carries it (LEG-side-direction); a flag initialised per iteration is not hoisted out of a loop that resets it (LOOP-carried-flag). from_Bflat decides on canonical_form() from the bond dimensions of the constructed state, also for a one-site infinite unit cell.',
    'C09': 'Also: tensors fed into a state built with form=None come from get_B(form=None) on '
           'every site (bond coverage); spatial_inversion reverses the list of forms as well as '
           'swapping each pair. permute_sites moves site i to perm[i] (read off its sorting loop): the docstring states that map and callers that gather a companion list with a permutation pass its inverse. A Jordan-Wigner offset is applied once (OFFSET-once); an error accumulator is never overwritten inside its loop. Every site lookup in a function with an i_offset includes it; no stale per-item variable is read in a loop (LOOP-stale-read).',
    'C10': 'Also: on-site weights when merging MPO on-site terms into bonds (1 at a finite '
           'boundary, 1/2 elsewhere) in both implementations; the basis permutation that undoes '
           'charge sorting is the inverse permutation; bond_energies uses the same bond '
           'convention as H_bond; the fermionic reordering sign travels with the term into the '
           'hermitian-conjugate call. Generic exact dataflow facts on the anchor files: no result of a call is bound to a local that reaches no read (VALUE-dead, reaching definitions on the CFG); every self.X read names an attribute bound in the class family (ATTR-defined). Index conversions between lattice and MPS order are undone with the matching inverse (INDEX-wrap); a per-bond accumulator is not mixed with its sibling (ACCUM-mixed). Periodic index equality is tested as (a - b) % L == 0; consumers of CouplingTerms.to_TermList() do not put the identity between operators (one known finding: the dense exporters).',
    'C11': 'Also: MPO.plus_identity: the exponents of beta**(1/N) collected along every path '
           'through the blocks (start C, middle A, end B, on-site D) add up to N as exact '
           'polynomial identities in the positions of the term relative to the chosen sites, '
           'and the two identity chains carry beta exactly once (WEIGHT-path). Generic exact dataflow facts on the anchor files: no result of a call is bound to a local that reaches no read (VALUE-dead, reaching definitions on the CFG); every self.X read names an attribute bound in the class family (ATTR-defined). A dict parameter is never **-expanded into a method that declares that parameter itself (CALL-dict-forward); a value read from one end of a sequence is not used after a store to the other end (ALIAS-ends); both carry positive-control fixtures. The period used in the convergence test of expectation_value_power is the one of the object iterated over (RANGE-period-mixed). Site tensors that go straight into a contraction are fetched with an explicit canonical form; decision table of MPO.overlap over the two explicit_plus_hc flags; from_Wflat permutes both physical legs.',
    'C12': 'Also: change_charge does not update the (possibly shared) state_labels dict in '
           'place. Generic exact dataflow facts on the anchor files: no result of a call is bound to a local that reaches no read (VALUE-dead, reaching definitions on the CFG); every self.X read names an attribute bound in the class family (ATTR-defined). The on-site Jordan-Wigner factor of a two-site term is attached to the left operator in both builders; composing a permutation into Site.perm sets used_sort_charge.',
    'C13': 'Also: IdL / IdR / bond dimension used on one per-bond array in the mixers belong to '
           'the same MPO bond (index polynomials; get_IdL(i) = bond i, get_IdR(i) and the wR leg '
           'of W_i = bond i+1); adjoint() of OneSiteH / TwoSiteH conjugates every tensor that '
           'matvec / to_matrix contract, in the combined configuration too. Generic exact dataflow facts on the anchor files: no result of a call is bound to a local that reaches no read (VALUE-dead, reaching definitions on the CFG); every self.X read names an attribute bound in the class family (ATTR-defined). The final canonicalisation after a DMRG run is independent of the environment-sweep branch (HOOKS-final-canonical). One-site fallback calls of mix_and_decompose_2site run under the flag that fits move_right; UniformMPS.to_MPS canonicalises on every path to its return.',
    'C14': 'Also: stepping methods outside the run path (TEBDEngine.update_imag) advance '
           'evolved_time by N_steps times the same step as update(). Generic exact dataflow facts on the anchor files: no result of a call is bound to a local that reaches no read (VALUE-dead, reaching definitions on the CFG); every self.X read names an attribute bound in the class family (ATTR-defined). The memo key of calc_U is published only after the gates are complete: nothing that can raise is CFG-reachable after the key store (CACHE-key-after-value); order conditions of the fourth-order Suzuki constants on folded literals (TROTTER-order). force_prepare_evolve is set on every path after update_time_parameter; the TDVP basis expansion clears the environments unconditionally.',
    'C15': 'Also: dimensional analysis of svd_theta / eigh_rho (degree under rescaling of the '
           'input, power of the kept norm, spectrum power): truncate() receives a normalised '
           'spectrum of singular values and the returned S / renormalization / W have the '
           'documented degrees; the degeneracy mask always allows cut 0; no tensor method that '
           'returns a new tensor is called for effect in truncation.py (TRUNC-value-dropped). Generic exact dataflow facts on the anchor files: no result of a call is bound to a local that reaches no read (VALUE-dead, reaching definitions on the CFG). Every reader of a truncation option outside truncate() agrees with truncate()\'s default, reads after a truncating call on the same parameters, or handles the default at once (Config.get stores missing defaults) (OPTION-default-first). A spectrum is not modified in place between taking its norm and dividing by it.',
    'C16': 'Also: GMRES.reset() prepares the per-cycle state by the same expressions as '
           '__init__ (rs[0] read as rs[-1]) and the first Krylov vector is the residual divided '
           'by its own norm, e1 scaled with that norm. Generic exact dataflow facts on the anchor files: no result of a call is bound to a local that reaches no read (VALUE-dead, reaching definitions on the CFG); every self.X read names an attribute bound in the class family (ATTR-defined). The cache reset of a run is not followed by a cache-filling call (forward dataflow); the convergence test of LanczosEvolution reads the normalised result only; the default of `normalize` is the documented expression.',
    'C17': 'Also: a from_hdf5 that rebuilds through cls(..) passes every loaded value to the '
           'constructor parameter that determines the attribute saved under that key (data / '
           'control dependence through __init__ and helpers); the own object is memorized before '
           'any loader call that memorizes the same group; test_sanity() at the end of a loader '
           'reads only assigned attributes (property setters and __setstate__ modelled); the '
           'compact masked-array format is chosen under a universally quantified condition; the '
           'simple-key predicate for dicts rejects \'\', \'.\', keys with \'/\' and non-strings '
           '(constant folding on witnesses). Generic exact dataflow facts on the anchor files: no result of a call is bound to a local that reaches no read (VALUE-dead, reaching definitions on the CFG); every self.X read names an attribute bound in the class family (ATTR-defined). The dict part and the slot part of a pickle state are applied independently; every field read by from_hdf5 is paired with the key of the same name over all assignment targets. create_group_for_obj memorizes on every path; Config.save_hdf5 saves self.options itself; __setstate__ agrees with __init__ on derived attributes.',
    'C18': 'Also: in-place preparations of psi in init_state sit under `not hasattr(self, '
           '"psi")`; overrides receiving resume_data (named or through **kwargs of '
           'constructors) forward it to the base implementation; resume_from_checkpoint does '
           'not pass `sequential` twice to run_seq_simulations nor the output_filename generated '
           'for the resumed simulation. Generic exact dataflow facts on the anchor files: no result of a call is bound to a local that reaches no read (VALUE-dead, reaching definitions on the CFG); every self.X read names an attribute bound in the class family (ATTR-defined). Methods that receive entries of the simulation parameters do not write them in place (OPTIONS-readonly); reads of the last statistics entry reachable from stopping_criterion() are dominated by an emptiness test (RESUME-empty-stats); measurements at algorithm checkpoints are connected with a priority above the checkpoint save; try/finally is modelled in the crash typestate. Attributes an algorithm accumulates over its run are in the resume data; overrides read the resume data before the base init_algorithm consumes it; the sequential index is stored before the parameters are copied.',
    'C19': 'Also: every floor division in mps2lat_idx / lat2mps_idx is exact by a '
           'multiple-of fact (difference to the own residue); a field from which a recompute '
           'method derives N_cells / N_sites is only changed on paths that run that method '
           'afterwards (CFG must-follow). Generic exact dataflow facts on the anchor files: no result of a call is bound to a local that reaches no read (VALUE-dead, reaching definitions on the CFG); every self.X read names an attribute bound in the class family (ATTR-defined). The row count for negative MPS indices rounds up (GEOM-size-rounding); the corner of the box of a multi-coupling is not clamped (GEOM-box-corner); early exits of possible_(multi_)couplings cover negative coupling shapes (GEOM-shape-nonpositive). Shifted boundaries: the wrapped coordinate is recomputed after the shift in both coupling enumerations; axes are normalised before the descending expansion; the query ordering() restores every attribute it stores temporarily.',
    'C20': 'Also: the result of a task is stored before task_done() on every path; keys leave '
           '_waiting_for_load only after their load task finished (join / worker exit / assert '
           'key in _loaded dominates). Generic exact dataflow facts on the anchor files: no result of a call is bound to a local that reaches no read (VALUE-dead, reaching definitions on the CFG); every self.X read names an attribute bound in the class family (ATTR-defined). preload never queues a second load for a key in flight (TS-no-duplicate-load); Worker.__exit__ joins the worker thread on every normal path after exit.set() (SYNC-exit-join). emit loops iterate over a copy of the listeners; the decorator form of connect forwards all parameters; sub-containers are registered with their parent; Hdf5Storage.save removes an existing key first.',
}

# round 6 (one independently seeded change per property) and the leads of its agents
EXTRA6 = {
    'C01': 'inner() re-orders axes_a by argsort(axes_b) when it normalises axes_b to range(rank) (AXES-parallel-sort).',
    'C05': 'Eigenvalues and eigenvector blocks of eig/eigh/eigvals are stored at the ROW sector of the diagonal block, sliced on a.legs[0] (FACT-eig-slot).',
    'C11': 'Loops over grouped sites advance by the size of the group, never by the nominal n (GROUP-stride, sibling agreement of MPS / MPO / NearestNeighborModel.group_sites).',
    'C09': 'Loops over grouped sites advance by the size of the group (GROUP-stride). Parallel per-site containers (tensors, singular values, sites, forms) are re-ordered with index arrays that agree modulo L (REINDEX-congruent).',
    'C10': 'The merge key of MultiCouplingTerms._insert_connection equals the set of fields taken over from the new connection (decided on field sets, for slice and tuple forms); every contribution to H_bond precedes the Hermitian conjugation under explicit_plus_hc; loops over grouped sites advance by the size of the group (GROUP-stride).',
    'C14': 'A factor norm(S) moved into psi.norm is divided out of S before any further use of S in the same update (NORM-renorm-use).',
    'C15': 'A relative truncation error is normalised by the norm of the tensor it approximates (TRUNC-eps-reference).',
    'C16': 'Arithmetic with self.E_shift occurs only in run(), on the returned local: the shift is removed exactly once.',
    'C17': 'A loader that rebuilds the object through cls(...) loads every saved attribute that all __init__ set to a constant; a loader that delegates to super().from_hdf5 does not re-derive an attribute the super loader restored (HDF5-no-overwrite).',
    'C18': 'A checkpoint emitted at the start of an iteration is skipped in the first iteration of the call by a flag local to the call, not by restored engine state (RESUME-checkpoint-guard).',
    'C19': 'A property setter that replaces the base setter drops every cache the base setter drops (SETTER-invalidate). The pair tables of DualSquare (toric_code.py) are decided like those of lattice.py (constant folding incl. comprehensions and np.eye).',
}
for _k, _v in EXTRA6.items():
    EXTRA[_k] = (EXTRA.get(_k, '') + ' ' + _v).strip()
