"""Per-property claims (kept in sync with DESIGN.md §4/§5)."""

PARTIAL = ('Decides, on every run and from the current source, the structural clauses named '
           'here; it does NOT decide the numerical/behavioural residue of the property. ')


def fill(claim, na):
    claim('C20', 'CFG must-follow/must-precede path rules + coupled-update + value-depends-on-'
          'parameter dataflow over thread.py/cache.py/events.py',
          PARTIAL + 'Worker get/task_done pairing on all paths incl. exceptional, timeouts and '
          'liveness checks around every blocking queue call, exit-flag protocol; ThreadedStorage '
          'waiting/load-task pairing, FIFO-only disk access, read-after-join, close order; '
          'DictCache: every place __getitem__ returns from is updated by __setitem__ and '
          'invalidated by __delitem__; EventHandler: disconnect guard depends on listener_id, id '
          'allocation, emit after a stable descending-priority sort. Linearizability over all '
          'schedules is not decided.',
          'trusts CPython ast, the hand-built CFG (sa/cfg.py), documented semantics of '
          'queue.Queue/threading.Event; name-based resolution of self.<attr> calls', 'C20')
    for pid in ['C01', 'C02', 'C03', 'C04', 'C05', 'C06', 'C07', 'C09', 'C10', 'C11', 'C12',
                'C13', 'C14', 'C15', 'C16', 'C17', 'C18', 'C19']:
        na(pid, 'static rule planned in DESIGN.md but not built yet (work in progress); not '
           'claimed until its check exists')
    na('C08', 'every clause quantifies over numerical values (expectation values, overlaps, Born '
       'weights); the only structural part (Jordan-Wigner routing of measurement entry points) is '
       'decided under C12')
