"""Sensitivity self-test: applies single text edits (mutants) to a scratch copy of the *current*
/repo/tenpy and requires that the property's check fires (exit 1, naming the rule) — or stays
silent for behaviour-preserving twins. Also runs the seeded patches under /verif/seeded.

usage: check --selftest [ID ...] [--seeded] [--jobs N]
Scratch copies live under ${TMPDIR:-/var/tmp}/tvf-* and are removed afterwards.
"""
import concurrent.futures
import json
import os
import shutil
import subprocess
import sys
import tempfile

from .core import REPO, VERIF


def _scratch():
    base = os.environ.get('TMPDIR') or '/var/tmp'
    d = tempfile.mkdtemp(prefix='tvf-', dir=base)
    return d


def _copy_repo(dst):
    os.makedirs(dst, exist_ok=True)
    shutil.copytree(os.path.join(REPO, 'tenpy'), os.path.join(dst, 'tenpy'),
                    ignore=shutil.ignore_patterns('__pycache__', '*.so', '*.c'))


def run_check(pid, repo, out):
    env = dict(os.environ)
    env['TENPY_VERIF_REPO'] = repo
    env['TENPY_VERIF_NO_SENSITIVITY'] = '1'
    env['TENPY_VERIF_OUT'] = out
    p = subprocess.run([sys.executable, '-B', os.path.join(VERIF, 'sa', 'main.py'), pid],
                       capture_output=True, text=True, env=env)
    return p.returncode, p.stdout + p.stderr


def run_mutant(mut):
    d = _scratch()
    try:
        repo = os.path.join(d, 'repo')
        _copy_repo(repo)
        path = os.path.join(repo, mut['file'])
        with open(path) as f:
            src = f.read()
        n = src.count(mut['old'])
        if n != 1:
            return dict(mut, result='skipped', detail='anchor text occurs %d times' % n)
        with open(path, 'w') as f:
            f.write(src.replace(mut['old'], mut['new']))
        rc, outp = run_check(mut['property'], repo, os.path.join(d, 'out'))
        want = mut.get('expect', 'fire')
        if want == 'fire':
            ok = rc == 1 and (mut.get('rule') is None or ('[%s]' % mut['rule']) in outp)
        else:
            ok = rc == 0
        tail = [l for l in outp.splitlines() if 'VIOLATION' not in l][-6:]
        return dict(mut, result='ok' if ok else 'MISSED' if want == 'fire' else 'FALSE-ALARM',
                    rc=rc, detail='\n'.join(tail)[:1500])
    finally:
        shutil.rmtree(d, ignore_errors=True)


def run_seeded(sdir):
    meta_p = os.path.join(sdir, 'meta.json')
    patch = os.path.join(sdir, 'patch.diff')
    if not (os.path.exists(meta_p) and os.path.exists(patch)):
        return None
    meta = json.load(open(meta_p))
    d = _scratch()
    try:
        repo = os.path.join(d, 'repo')
        _copy_repo(repo)
        p = subprocess.run(['patch', '-p1', '-s', '-d', repo, '-i', patch], capture_output=True,
                           text=True)
        if p.returncode != 0:
            return dict(name=os.path.basename(sdir), result='skipped',
                        detail='patch does not apply: ' + (p.stdout + p.stderr)[:300])
        res = {}
        props = meta.get('check_properties') or [meta['property']]
        fired = []
        for pid in props:
            rc, outp = run_check(pid, repo, os.path.join(d, 'out'))
            res[pid] = rc
            if rc == 1:
                fired.append(pid)
        return dict(name=os.path.basename(sdir), property=meta['property'],
                    result='caught' if fired else 'missed', by=fired, rcs=res)
    finally:
        shutil.rmtree(d, ignore_errors=True)


def run_refactor(rdir):
    """behaviour-preserving patch: every check must stay silent (exit 0)"""
    patch = os.path.join(rdir, 'patch.diff')
    if not os.path.exists(patch):
        return None
    d = _scratch()
    try:
        repo = os.path.join(d, 'repo')
        _copy_repo(repo)
        p = subprocess.run(['patch', '-p1', '-s', '-d', repo, '-i', patch], capture_output=True,
                           text=True)
        if p.returncode != 0:
            return dict(name=os.path.basename(rdir), result='skipped',
                        detail='patch does not apply: ' + (p.stdout + p.stderr)[:300])
        rules = os.path.join(VERIF, 'sa', 'rules')
        props = sorted(f[:-3].upper() for f in os.listdir(rules)
                       if f.startswith('c') and f[1:-3].isdigit())
        fired = {}
        for pid in props:
            rc, outp = run_check(pid, repo, os.path.join(d, 'out'))
            if rc != 0:
                fired[pid] = [rc] + [l[:300] for l in outp.splitlines()
                                     if l.startswith('tenpy/') or 'ANALYSIS-ERROR' in l][:3]
        return dict(name=os.path.basename(rdir), result='FALSE-ALARM' if fired else 'silent',
                    by=fired)
    finally:
        shutil.rmtree(d, ignore_errors=True)


def main(argv):
    from .mutants import MUTANTS
    jobs = 16
    ids = []
    seeded = False
    refactors = False
    i = 0
    while i < len(argv):
        if argv[i] == '--jobs':
            jobs = int(argv[i + 1])
            i += 2
        elif argv[i] == '--seeded':
            seeded = True
            i += 1
        elif argv[i] == '--refactors':
            refactors = True
            i += 1
        else:
            ids.append(argv[i].upper())
            i += 1
    muts = [m for m in MUTANTS if not ids or m['property'] in ids]
    bad = 0
    with concurrent.futures.ThreadPoolExecutor(max_workers=jobs) as ex:
        results = list(ex.map(run_mutant, muts))
        sres = []
        if seeded:
            sd = os.path.join(VERIF, 'seeded')
            dirs = sorted(os.path.join(sd, x) for x in os.listdir(sd))
            dirs = [x for x in dirs if os.path.isdir(x)]
            sres = [r for r in ex.map(run_seeded, dirs) if r]
        rres = []
        if refactors:
            rd = os.path.join(VERIF, 'refactors')
            dirs = sorted(os.path.join(rd, x) for x in os.listdir(rd))
            rres = [r for r in ex.map(run_refactor, [x for x in dirs if os.path.isdir(x)]) if r]
    for r in results:
        tag = r['result']
        print('%-11s %s %-28s %s' % (tag, r['property'], r.get('rule') or '-', r['name']))
        if tag in ('MISSED', 'FALSE-ALARM'):
            bad += 1
            print('    ' + r.get('detail', '').replace('\n', '\n    '))
        if tag == 'skipped':
            print('    ' + r.get('detail', ''))
    for r in sres:
        print('seeded %-8s %-40s %s' % (r['result'], r['name'], r.get('by') or r.get('detail')))
    for r in rres:
        if r['result'] != 'silent':
            print('refactor %-12s %-24s %s' % (r['result'], r['name'], r.get('by') or r.get('detail')))
            if r['result'] == 'FALSE-ALARM':
                bad += 1
    if refactors:
        print('refactors: %d/%d behaviour-preserving patches left every check silent' %
              (sum(1 for r in rres if r['result'] == 'silent'), len(rres)))
    n_ok = sum(1 for r in results if r['result'] == 'ok')
    print('selftest: %d/%d mutants behaved as expected, %d skipped; seeded caught %d/%d' %
          (n_ok, len(results), sum(1 for r in results if r['result'] == 'skipped'),
           sum(1 for r in sres if r['result'] == 'caught'), len(sres)))
    out = os.path.join(VERIF, 'evidence', 'selftest.json')
    try:
        with open(out, 'w') as f:
            json.dump({'mutants': [{k: v for k, v in r.items() if k not in ('old', 'new')}
                                   for r in results], 'seeded': sres, 'refactors': rres},
                      f, indent=1)
    except OSError:
        pass
    return 1 if bad else 0
