"""Branch-sensitive extraction of the HDF5 keys written by save_hdf5 / read by from_hdf5."""
import ast

from .core import AnalysisError, dotted, unparse

MAXPATHS = 4096


class KPath:
    def __init__(self):
        self.written = {}  # (kind, key) -> value expr (ast) ; kind 'd' dataset / 'a' attribute
        self.required = {}  # (kind, key) -> target expr text or None
        self.all_targets = {}  # (kind, key) -> every target the key is read into on this path
        self.optional = set()
        self.present = set()  # keys asserted present by a guard on this path
        self.absent = set()
        self.disc = {}  # discriminator variable name -> const (== true)
        self.disc_not = {}  # name -> set of consts known unequal
        self.disc_in = {}  # name -> set of consts the variable is known to be among
        self.wildcard = False  # generic __dict__ export/import
        self.dynamic = False
        self.var_from_attr = {}  # local var -> attr key it was read from / written to
        self.conds = []

    def copy(self):
        p = KPath()
        p.written = dict(self.written)
        p.required = dict(self.required)
        p.all_targets = {k: list(v) for k, v in self.all_targets.items()}
        p.optional = set(self.optional)
        p.present = set(self.present)
        p.absent = set(self.absent)
        p.disc = dict(self.disc)
        p.disc_not = {k: set(v) for k, v in self.disc_not.items()}
        p.disc_in = {k: set(v) for k, v in self.disc_in.items()}
        p.wildcard = self.wildcard
        p.dynamic = self.dynamic
        p.var_from_attr = dict(self.var_from_attr)
        p.conds = list(self.conds)
        return p


def _key_of(node):
    """subpath + 'k' -> 'k' ; else None (dynamic)"""
    if isinstance(node, ast.BinOp) and isinstance(node.op, ast.Add) and isinstance(
            node.right, ast.Constant) and isinstance(node.right.value, str) and isinstance(
                node.left, ast.Name):
        return node.right.value
    return None


_NONE = object()


def _normal(func):
    """normal form: loops over a literal table of (key, value) pairs written out, aliases of the
    group / its attrs expanded"""
    from .normal import inline_temps, unroll_literal_loops
    if getattr(func, '_hdf5_normal', False):
        return func
    nf = inline_temps(unroll_literal_loops(func), aliases_only=True)
    nf._hdf5_normal = True
    nf._hdf5_orig = getattr(func, '_hdf5_orig', func)
    return nf


class Extractor:
    """mode 'save' or 'load'. `resolve_super(func)` returns the parent implementation or None."""

    def __init__(self, mode, resolve_super):
        self.mode = mode
        self.resolve_super = resolve_super

    def paths(self, func, depth=0):
        if depth > 6:
            raise AnalysisError('hdf5 key extraction: super() chain too deep at %s' % func.name)
        self.depth = depth
        func = _normal(func)
        a = func.args.args
        names = [x.arg for x in a]
        # (self|cls, hdf5_saver|hdf5_loader, h5gr, subpath)
        self.io = names[1] if len(names) > 1 else 'hdf5_saver'
        self.gr = names[2] if len(names) > 2 else 'h5gr'
        out = []
        self._block(list(func.body), KPath(), out, func, depth)
        return out

    def _block(self, stmts, p, out, func, depth):
        """executes stmts on path p; completed paths appended to out; returns list of
        fall-through paths"""
        cur = [p]
        for st in stmts:
            nxt = []
            for q in cur:
                nxt.extend(self._stmt(st, q, out, func, depth))
            cur = nxt
            if len(cur) + len(out) > MAXPATHS:
                raise AnalysisError('hdf5 key extraction: too many paths in %s' % func.name)
            if not cur:
                break
        if stmts is func.body or True:
            pass
        return cur

    def run(self, func, depth=0):
        func = _normal(func)
        a = func.args.args
        names = [x.arg for x in a]
        self.io = names[1] if len(names) > 1 else 'hdf5_saver'
        self.gr = names[2] if len(names) > 2 else 'h5gr'
        out = []
        rest = self._block(list(func.body), KPath(), out, func, depth)
        return out + rest

    def _stmt(self, st, p, out, func, depth):
        if isinstance(st, ast.If):
            # `A or B`, `A and B`, `not A` are desugared so that every leaf test is a single
            # comparison the path can record (and contradict)
            t = st.test
            if isinstance(t, ast.UnaryOp) and isinstance(t.op, ast.Not):
                return self._stmt(ast.If(test=t.operand, body=st.orelse or [ast.Pass()],
                                         orelse=st.body), p, out, func, depth)
            if isinstance(t, ast.BoolOp) and len(t.values) >= 2:
                first = t.values[0]
                rest = t.values[1] if len(t.values) == 2 else ast.BoolOp(op=t.op,
                                                                         values=t.values[1:])
                inner = ast.If(test=rest, body=st.body, orelse=st.orelse)
                if isinstance(t.op, ast.Or):
                    return self._stmt(ast.If(test=first, body=st.body, orelse=[inner]),
                                      p, out, func, depth)
                return self._stmt(ast.If(test=first, body=[inner], orelse=st.orelse),
                                  p, out, func, depth)
            res = []
            pt, pf = p.copy(), p.copy()
            ft, ff = self._cond(st.test, pt, pf)
            self._events(st.test, pt)
            self._events(st.test, pf)
            if ft:
                res += self._block(st.body, pt, out, func, depth)
            if ff:
                res += self._block(st.orelse, pf, out, func, depth)
            return res
        if isinstance(st, (ast.For, ast.While)):
            p1 = p.copy()
            p1.dynamic = True
            r = self._block(st.body, p1, out, func, depth)
            return [p] + r
        if isinstance(st, (ast.With, )):
            for it in st.items:
                self._events(it.context_expr, p)
            return self._block(st.body, p, out, func, depth)
        if isinstance(st, ast.Try):
            r = self._block(st.body, p, out, func, depth)
            r2 = []
            for q in r:
                r2 += self._block(st.orelse, q, out, func, depth)
            r3 = []
            for q in r2:
                r3 += self._block(st.finalbody, q, out, func, depth)
            return r3
        if isinstance(st, ast.Return):
            if st.value is not None:
                self._events(st.value, p)
            out.append(p)
            return []
        if isinstance(st, ast.Raise):
            return []
        if isinstance(st, (ast.FunctionDef, ast.ClassDef)):
            return [p]
        # simple statement; super() calls may fork
        forks = self._super_fork(st, p, func, depth)
        if forks is not None:
            return forks
        self._events(st, p)
        return [p]

    def _super_fork(self, st, p, func, depth):
        meth = 'save_hdf5' if self.mode == 'save' else 'from_hdf5'
        for c in ast.walk(st):
            if isinstance(c, ast.Call) and isinstance(c.func, ast.Attribute) and \
                    c.func.attr == meth and isinstance(c.func.value, ast.Call) and \
                    dotted(c.func.value.func) == 'super':
                parent = self.resolve_super(getattr(func, '_hdf5_orig', func))
                if parent is None:
                    raise AnalysisError('hdf5 key extraction: cannot resolve super().%s in %s' %
                                        (meth, getattr(func, '_qualname', func.name)))
                sub = Extractor(self.mode, self.resolve_super).run(parent, depth + 1)
                res = []
                for sp in sub:
                    q = p.copy()
                    q.written.update(sp.written)
                    q.required.update(sp.required)
                    for k_, v_ in sp.all_targets.items():
                        q.all_targets.setdefault(k_, []).extend(v_)
                    q.optional |= sp.optional
                    q.present |= sp.present
                    q.absent |= sp.absent
                    q.disc.update(sp.disc)
                    for k, v in sp.disc_not.items():
                        q.disc_not.setdefault(k, set()).update(v)
                    for k, v in sp.disc_in.items():
                        q.disc_in[k] = (q.disc_in[k] & set(v)) if k in q.disc_in else set(v)
                    q.wildcard = q.wildcard or sp.wildcard
                    q.dynamic = q.dynamic or sp.dynamic
                    q.var_from_attr.update(sp.var_from_attr)
                    res.append(q)
                return res
        return None

    def _cond(self, test, pt, pf):
        """record guards: 'k' in h5gr / h5gr.attrs ; var == 'const'"""
        if isinstance(test, ast.Compare) and len(test.ops) == 1:
            op = test.ops[0]
            l, r = test.left, test.comparators[0]
            if isinstance(op, (ast.In, ast.NotIn)) and isinstance(l, ast.Constant) and isinstance(
                    l.value, str):
                kind = None
                if dotted(r) == self.gr:
                    kind = 'd'
                elif dotted(r) == self.gr + '.attrs':
                    kind = 'a'
                if kind:
                    a, b = (pt, pf) if isinstance(op, ast.In) else (pf, pt)
                    a.present.add((kind, l.value))
                    b.absent.add((kind, l.value))
                    return True, True
            if isinstance(op, (ast.In, ast.NotIn)) and isinstance(l, ast.Name) and isinstance(
                    r, (ast.Tuple, ast.List, ast.Set)) and r.elts and all(
                        isinstance(e, ast.Constant) for e in r.elts):
                # `var in ('a', 'b')`: one of several values of a discriminator
                vals = {e.value for e in r.elts}
                a, b = (pt, pf) if isinstance(op, ast.In) else (pf, pt)
                fa = not ((l.id in a.disc and a.disc[l.id] not in vals) or
                          vals <= a.disc_not.get(l.id, set()) or
                          (l.id in a.disc_in and not (a.disc_in[l.id] & vals)))
                fb = not (b.disc.get(l.id, _NONE) in vals)
                a.disc_in[l.id] = (a.disc_in[l.id] & vals) if l.id in a.disc_in else set(vals)
                b.disc_not.setdefault(l.id, set()).update(vals)
                return (fa, fb) if isinstance(op, ast.In) else (fb, fa)
            if isinstance(op, (ast.Eq, ast.NotEq)) and isinstance(l, ast.Name) and isinstance(
                    r, ast.Constant):
                a, b = (pt, pf) if isinstance(op, ast.Eq) else (pf, pt)
                # feasibility against what the path already knows about this discriminator
                fa = not ((l.id in a.disc and a.disc[l.id] != r.value) or
                          r.value in a.disc_not.get(l.id, ()) or
                          (l.id in a.disc_in and r.value not in a.disc_in[l.id]))
                fb = not (b.disc.get(l.id, _NONE) == r.value)
                a.disc[l.id] = r.value
                b.disc_not.setdefault(l.id, set()).add(r.value)
                return (fa, fb) if isinstance(op, ast.Eq) else (fb, fa)
        pt.conds.append(unparse(test))
        pf.conds.append('not (%s)' % unparse(test))
        return True, True

    def _events(self, node, p):
        for c in ast.walk(node):
            if isinstance(c, ast.Call):
                d = dotted(c.func) or ''
                if self.mode == 'save':
                    if d == self.io + '.save' and len(c.args) >= 2:
                        k = _key_of(c.args[1])
                        if k is None:
                            p.dynamic = True
                        else:
                            p.written[('d', k)] = c.args[0]
                    elif d == self.io + '.save_dict_content':
                        p.wildcard = True
                    elif d in (self.gr + '.create_dataset', self.gr + '.create_group') and c.args \
                            and isinstance(c.args[0], ast.Constant):
                        p.written[('d', c.args[0].value)] = None
                else:
                    if d == self.io + '.load' and c.args:
                        k = _key_of(c.args[0])
                        if k is None:
                            p.dynamic = True
                        else:
                            self._req(p, ('d', k), c)
                    elif d == self.io + '.get_attr' and len(c.args) >= 2 and isinstance(
                            c.args[1], ast.Constant):
                        self._req(p, ('a', c.args[1].value), c)
                    elif d == self.gr + '.attrs.get' and c.args and isinstance(
                            c.args[0], ast.Constant):
                        p.optional.add(('a', c.args[0].value))
                    elif d in (self.io + '.load_dict', self.io + '.load_simple_dict',
                               self.io + '.load_general_dict'):
                        p.wildcard = True
            elif isinstance(c, ast.Subscript) and isinstance(c.slice, ast.Constant) and isinstance(
                    c.slice.value, str):
                if dotted(c.value) == self.gr + '.attrs':
                    if isinstance(c.ctx, ast.Store) and self.mode == 'save':
                        st = c
                        from .core import parent
                        while not isinstance(st, ast.stmt):
                            st = parent(st)
                        p.written[('a', c.slice.value)] = getattr(st, 'value', None)
                    elif isinstance(c.ctx, ast.Load) and self.mode == 'load':
                        self._req(p, ('a', c.slice.value), c)
                elif dotted(c.value) == self.gr:
                    if isinstance(c.ctx, ast.Store) and self.mode == 'save':
                        p.written[('d', c.slice.value)] = None
                    elif isinstance(c.ctx, ast.Load) and self.mode == 'load':
                        self._req(p, ('d', c.slice.value), c)
        # remember discriminator variables: format = get_attr(h5gr,'format') / attrs['format']=format
        if isinstance(node, ast.Assign) and len(node.targets) == 1:
            t, v = node.targets[0], node.value
            if self.mode == 'load' and isinstance(t, ast.Name) and isinstance(v, ast.Call) and \
                    dotted(v.func) == self.io + '.get_attr' and len(v.args) >= 2 and isinstance(
                        v.args[1], ast.Constant):
                p.var_from_attr[t.id] = v.args[1].value
            if self.mode == 'save' and isinstance(t, ast.Subscript) and \
                    dotted(t.value) == self.gr + '.attrs' and isinstance(t.slice, ast.Constant) \
                    and isinstance(v, ast.Name):
                p.var_from_attr[v.id] = t.slice.value

    def _req(self, p, key, call):
        from .core import parent
        st = call
        while not isinstance(st, ast.stmt):
            st = parent(st)
        target = None
        if isinstance(st, ast.Assign) and st.value is call and len(st.targets) == 1:
            target = st.targets[0]
        if key in p.present:
            p.optional.add(key)
        p.required.setdefault(key, target)
        if target is not None:
            p.all_targets.setdefault(key, []).append(target)


def disc_by_attr(p):
    """{attr key: const} for discriminators tied to an attribute"""
    out = {}
    for var, const in p.disc.items():
        if var in p.var_from_attr:
            out[p.var_from_attr[var]] = const
    return out


def disc_not_by_attr(p):
    out = {}
    for var, consts in p.disc_not.items():
        if var in p.var_from_attr:
            out[p.var_from_attr[var]] = consts
    return out


def disc_in_by_attr(p):
    out = {}
    for var, consts in p.disc_in.items():
        if var in p.var_from_attr:
            out[p.var_from_attr[var]] = consts
    return out


def compatible(wp, rp):
    dw, dr = disc_by_attr(wp), disc_by_attr(rp)
    iw, ir = disc_in_by_attr(wp), disc_in_by_attr(rp)
    for k, v in dr.items():
        if k in iw and v not in iw[k]:
            return False
    for k, v in dw.items():
        if k in ir and v not in ir[k]:
            return False
    for k in set(iw) & set(ir):
        if not (iw[k] & ir[k]):
            return False
    for k in set(dw) & set(dr):
        if dw[k] != dr[k]:
            return False
    nw, nr = disc_not_by_attr(wp), disc_not_by_attr(rp)
    for k, v in dw.items():
        if v in nr.get(k, ()):
            return False
    for k, v in dr.items():
        if v in nw.get(k, ()):
            return False
    # presence guards of the reader vs what the writer path wrote
    for key in rp.present:
        if key not in wp.written and not wp.wildcard and not wp.dynamic:
            return False
    for key in rp.absent:
        if key in wp.written:
            return False
    return True
