"""Normal form for expression-matching rules: inline single-assignment temporaries.

Behaviour-preserving clean-ups most often introduce, rename or remove *temporaries*
(`n = self.nlegs`, `row = self.q_map[j, :]`, `d = new[0] - old[0]`). A rule that asks "what is
returned / passed / stored here" should not care. `inline_temps(func)` returns a deep copy of the
function in which every local that

  * is bound exactly once, by a plain assignment `x = e` or a tuple unpacking `a, b = e`
    (giving `e[0]`, `e[1]`), and is not a parameter, loop target, `with` target or global,
  * is never the receiver of a store / in-place update (`x[i] = ..`, `x.a = ..`, `x += ..`,
    a bare `x.method(..)` statement), is not captured by a nested function or lambda,
  * is only read lexically after its binding, inside the block that contains the binding (or a
    block nested in it), with no rebinding of a name occurring in `e` and no store to an
    attribute/subscript occurring in `e` between the binding and the read,

is replaced by its defining expression at every read; the binding statement is dropped (kept as a
bare expression statement if the value is never read and contains a call). Calls are treated as
pure *for the purpose of matching only*: the normal form is never used for ordering / effect rules
(those run on the CFG of the original function).

The result is still valid python (`ast.unparse` works), so existing helpers apply to it.
"""
import ast
import copy

from .core import set_parents

MAX_NODES = 120


def _size(e):
    return sum(1 for _ in ast.walk(e))


def _block_chain(node, func):
    """list of (parent, fieldname) blocks enclosing node, outermost first"""
    chain = []
    cur = node
    while cur is not func and cur is not None:
        p = getattr(cur, '_parent', None)
        if p is None:
            break
        for fld in ('body', 'orelse', 'finalbody', 'handlers'):
            blk = getattr(p, fld, None)
            if isinstance(blk, list) and any(cur is s for s in blk):
                chain.append((id(p), fld))
        cur = p
    return chain[::-1]


def _loops_of(node, func):
    out = []
    cur = getattr(node, '_parent', None)
    while cur is not None and cur is not func:
        if isinstance(cur, (ast.For, ast.AsyncFor, ast.While)):
            out.append(cur)
        cur = getattr(cur, '_parent', None)
    return out


def _stmt_of(node):
    cur = node
    while not isinstance(cur, ast.stmt):
        cur = cur._parent
    return cur


def _pos(n):
    return (getattr(n, 'lineno', 0), getattr(n, 'col_offset', 0))


def _dc(node):
    """structural copy of a subtree (fields and positions only: the `_parent` links added by
    core.set_parents would otherwise drag the whole module into a deepcopy)"""
    if isinstance(node, ast.AST):
        new = node.__class__()
        for fld in node._fields:
            if hasattr(node, fld):
                setattr(new, fld, _dc(getattr(node, fld)))
        for at in node._attributes:
            if hasattr(node, at):
                setattr(new, at, getattr(node, at))
        return new
    if isinstance(node, list):
        return [_dc(x) for x in node]
    return node


class _Expand(ast.NodeTransformer):
    """replace loads of names in env by (copies of) their expressions"""

    def __init__(self, env):
        self.env = env

    def visit_Name(self, node):
        if isinstance(node.ctx, ast.Load) and node.id in self.env:
            new = _dc(self.env[node.id])
            for n in ast.walk(new):
                n.lineno, n.col_offset = node.lineno, node.col_offset
                n.end_lineno, n.end_col_offset = node.lineno, node.col_offset
            return new
        return node

    def visit_FunctionDef(self, node):
        return node

    visit_AsyncFunctionDef = visit_Lambda = visit_FunctionDef


def _is_alias_expr(e):
    """a plain name or attribute chain: replacing an alias `h = self._h` by `self._h` is sound
    even if the object is updated through the alias"""
    while isinstance(e, ast.Attribute):
        e = e.value
    return isinstance(e, ast.Name)


def _base_name(n):
    b = n
    while isinstance(b, (ast.Subscript, ast.Attribute)):
        b = b.value
    return b.id if isinstance(b, ast.Name) else None


def _calls_on_self(x):
    """a call `self.m(..)` inside the inlined value: may read any attribute"""
    return isinstance(x, ast.Call) and isinstance(x.func, ast.Attribute) and \
        isinstance(x.func.value, ast.Name) and x.func.value.id == 'self'


def inline_temps(func, keep=(), names_only=False, aliases_only=False):
    """see module docstring. `keep`: names never inlined. `names_only`: copy propagation only
    (`x = y` with y a plain name), e.g. the parameter bindings left by sa.inline."""
    f = _dc(func)
    set_parents(f)
    f._parent = None
    a = f.args
    params = {x.arg for x in a.posonlyargs + a.args + a.kwonlyargs}
    params |= {x.arg for x in (a.vararg, a.kwarg) if x is not None}
    blocked = set(params) | set(keep)
    mutated = set()           # receivers of stores / in-place calls: never replaced by a VALUE,
    nbind = {}                # but an alias `x = y` may still be replaced by the name y
    bind_stmt = {}
    loads = {}
    name_stores = []          # (pos, name)
    heap_stores = []          # (pos, text)
    call_events = []          # (pos, names possibly updated in place by a call made for effect)
    recvs = {}                # pos of such a call -> 'self.attr' for `self.attr.m(..)`
    nested = []
    for n in ast.walk(f):
        if n is f:
            continue
        if isinstance(n, (ast.Global, ast.Nonlocal)):
            blocked.update(n.names)
        elif isinstance(n, (ast.FunctionDef, ast.AsyncFunctionDef, ast.Lambda, ast.ClassDef)):
            nested.append(n)
            if not isinstance(n, ast.Lambda):
                blocked.add(n.name)
        elif isinstance(n, ast.Name):
            if isinstance(n.ctx, ast.Load):
                loads.setdefault(n.id, []).append(n)
                continue
            nbind[n.id] = nbind.get(n.id, 0) + 1
            name_stores.append((_pos(n), n.id))
            st = _stmt_of(n)
            simple = isinstance(st, ast.Assign) and len(st.targets) == 1 and (
                st.targets[0] is n or (isinstance(st.targets[0], (ast.Tuple, ast.List)) and
                                       any(e is n for e in st.targets[0].elts)))
            if simple:
                bind_stmt.setdefault(n.id, []).append((st, n))
            else:
                blocked.add(n.id)
        elif isinstance(n, ast.ExceptHandler) and n.name:
            blocked.add(n.name)
        elif isinstance(n, (ast.Import, ast.ImportFrom)):
            for al in n.names:
                blocked.add((al.asname or al.name).split('.')[0])
        elif isinstance(n, (ast.Subscript, ast.Attribute)) and \
                isinstance(n.ctx, (ast.Store, ast.Del)):
            heap_stores.append((_pos(n), ast.unparse(n), ast.unparse(n.value)
                                if isinstance(n, ast.Subscript) else None))
            b = _base_name(n)
            if b:
                mutated.add(b)
        elif isinstance(n, ast.AugAssign):
            b = _base_name(n.target)
            if b:
                mutated.add(b)
        elif isinstance(n, ast.Expr) and isinstance(n.value, ast.Call):
            # a call made for its effect: the receiver and the arguments may be updated in place
            # (`x.sort()`, `np.put(mask, idx, True)`)
            if isinstance(n.value.func, ast.Attribute):
                b = _base_name(n.value.func.value)
                if b:
                    mutated.add(b)
            ev = set()
            if isinstance(n.value.func, ast.Attribute):
                b = _base_name(n.value.func.value)
                if b:
                    ev.add(b)
            for arg in list(n.value.args) + [k.value for k in n.value.keywords]:
                if isinstance(arg, ast.Name):
                    mutated.add(arg.id)
                    ev.add(arg.id)
            call_events.append((_pos(n), ev))
            if isinstance(n.value.func, ast.Attribute) and isinstance(
                    n.value.func.value, ast.Attribute) and \
                    _base_name(n.value.func.value) in ('self', 'cls'):
                recvs[_pos(n)] = ast.unparse(n.value.func.value)
    for n in nested:
        for x in ast.walk(n):
            if isinstance(x, ast.Name):
                blocked.add(x.id)
    # --- per binding: the reads it (alone) reaches
    chains = {}

    def chain_of(st):
        k = id(st)
        if k not in chains:
            chains[k] = _block_chain(st, f)
        return chains[k]

    def end_of(st):
        return (getattr(st, 'end_lineno', st.lineno), getattr(st, 'end_col_offset', 0))

    bindings = []                      # (pos, name, stmt, target node)
    for nm, lst in bind_stmt.items():
        if nm in blocked or len(lst) != nbind.get(nm):
            continue                   # some binding of the name is not a plain assignment
        for st, tgt in lst:
            bindings.append((_pos(st), nm, st, tgt))
    bindings.sort(key=lambda b: b[0])
    by_name = {}
    for b in bindings:
        by_name.setdefault(b[1], []).append(b)
    reads_of = {id(b[2]): [] for b in bindings}     # keyed by id(stmt) + name below
    reads_key = {}
    ok_name = set(by_name)
    for nm in list(ok_name):
        for r in loads.get(nm, []):
            rst = _stmt_of(r)
            cand = [b for b in by_name[nm] if end_of(b[2]) < _pos(r) and
                    chain_of(rst)[:len(chain_of(b[2]))] == chain_of(b[2])]
            if not cand:
                ok_name.discard(nm)
                break
            b = cand[-1]
            # another binding of the name between the chosen one and the read (even in a branch)?
            if any(end_of(b[2]) < b2[0] < _pos(rst) or (b2[2] is rst and b2 is not b)
                   for b2 in by_name[nm] if b2 is not b):
                if not (len([b2 for b2 in by_name[nm] if b2[2] is rst]) and
                        all(not (end_of(b[2]) < b2[0] < _pos(rst)) for b2 in by_name[nm]
                            if b2 is not b)):
                    ok_name.discard(nm)
                    break
            # loop-carried: the read sits in a loop that the chosen binding is outside of, and the
            # name is re-bound somewhere in that loop (later iterations see that value)
            carried = False
            for lp in _loops_of(rst, f):
                if any(x is lp for x in _loops_of(b[2], f)):
                    continue
                if any(any(x is lp for x in _loops_of(b2[2], f)) for b2 in by_name[nm]):
                    carried = True
            if carried:
                ok_name.discard(nm)
                break
            reads_key.setdefault((id(b[2]), nm), []).append(r)
    per_read = {}                      # id(Name load) -> expression replacing it
    inlined = []

    def subst_copy(node):
        if isinstance(node, ast.AST):
            if isinstance(node, ast.Name) and isinstance(node.ctx, ast.Load) and \
                    id(node) in per_read:
                new = _dc(per_read[id(node)])
                for x in ast.walk(new):
                    x.lineno, x.col_offset = node.lineno, node.col_offset
                    x.end_lineno, x.end_col_offset = node.lineno, node.col_offset
                return new
            if isinstance(node, (ast.FunctionDef, ast.AsyncFunctionDef, ast.Lambda)) and \
                    node is not f:
                return _dc(node)
            new = node.__class__()
            for fld in node._fields:
                if hasattr(node, fld):
                    setattr(new, fld, subst_copy(getattr(node, fld)))
            for at in node._attributes:
                if hasattr(node, at):
                    setattr(new, at, getattr(node, at))
            return new
        if isinstance(node, list):
            return [subst_copy(x) for x in node]
        return node

    for pos, nm, st, tgt in bindings:
        if nm not in ok_name:
            continue
        val = st.value
        if any(isinstance(x, (ast.Yield, ast.YieldFrom, ast.Await, ast.NamedExpr, ast.Starred))
               for x in ast.walk(val)):
            continue
        t0 = st.targets[0]
        if t0 is tgt:
            raw = val
            wrap = None
        else:
            idx = [i for i, e in enumerate(t0.elts) if e is tgt][0]
            if isinstance(val, (ast.Tuple, ast.List)) and len(val.elts) == len(t0.elts):
                raw, wrap = val.elts[idx], None
            else:
                raw, wrap = val, idx
        if names_only and (wrap is not None or not isinstance(raw, ast.Name)):
            continue
        if aliases_only and (wrap is not None or not _is_alias_expr(raw)):
            continue      # only `x = y` / `x = obj.attr.attr`
        expr = subst_copy(raw)
        if wrap is not None:
            expr = ast.Subscript(value=expr, slice=ast.Constant(wrap), ctx=ast.Load())
        ast.fix_missing_locations(expr)
        if nm in mutated and not _is_alias_expr(expr):
            continue
        if _size(expr) > MAX_NODES:
            continue
        end = end_of(st)
        reads = reads_key.get((id(st), nm), [])
        fv = {x.id for x in ast.walk(expr) if isinstance(x, ast.Name)}
        heap = {ast.unparse(x) for x in ast.walk(expr)
                if isinstance(x, (ast.Attribute, ast.Subscript))}
        ok = True
        last = end
        for r in reads:
            # what the statement of the read does itself happens after the read
            last = max(last, _pos(_stmt_of(r)))
        if reads:
            for p2, name in name_stores:
                if end < p2 < last and name in fv:
                    ok = False
                    break
            if ok:
                for p2, tx, cont in heap_stores:
                    if not (end < p2 < last):
                        continue
                    if any(h == tx or h.startswith(tx) or tx.startswith(h + '[') or
                           tx.startswith(h + '.') for h in heap):
                        ok = False
                        break
                    # an element store `C[..] = v` may hit any element / slice read from C
                    if cont is not None and (cont in heap or cont in fv):
                        ok = False
                        break
            if ok:
                # calls made for their effect: `self.m(..)` may change any self.<attr> the
                # expression reads, `f(x)` / `x.m()` may update x in place
                heap_roots = {h.split('.')[0].split('[')[0] for h in heap}
                for p2, ev in call_events:
                    if not (end < p2 < last):
                        continue
                    rc = recvs.get(p2)
                    if rc is not None and not ((ev - {'self', 'cls'}) & fv):
                        # `self.X.m(..)`: only what hangs below self.X can change, unless the
                        # value itself calls a method of self (which may read anything)
                        if any(h == rc or h.startswith(rc + '.') or h.startswith(rc + '[')
                               for h in heap) or any(_calls_on_self(x) for x in ast.walk(expr)):
                            ok = False
                            break
                        continue
                    if (ev & fv & heap_roots) or (ev - {'self', 'cls'}) & fv:
                        ok = False
                        break
        if not ok:
            continue
        for r in reads:
            per_read[id(r)] = expr
        inlined.append((nm, st, tgt, bool(reads)))
    f2 = subst_copy(f)
    # drop the bindings (in the copy: find them by position)
    drop_pos = {}
    for nm, st, tgt, was_read in inlined:
        drop_pos.setdefault((_pos(st), end_of(st)), []).append((nm, was_read, st.targets[0] is tgt))
    for st in [x for x in ast.walk(f2) if isinstance(x, ast.Assign)]:
        key = (_pos(st), end_of(st))
        if key not in drop_pos or len(st.targets) != 1:
            continue
        infos = drop_pos[key]
        t0 = st.targets[0]
        if isinstance(t0, ast.Name):
            if any(nm == t0.id for nm, _, whole in infos if whole):
                st._drop = (True, not [w for nm, w, _ in infos if nm == t0.id][0])
        elif isinstance(t0, (ast.Tuple, ast.List)):
            names = [e.id for e in t0.elts if isinstance(e, ast.Name)]
            if len(names) == len(t0.elts) and all(any(nm == x for nm, _, _ in infos)
                                                   for x in names):
                st._drop = (True, False)
    set_parents(f2)
    f2._parent = None
    for st in [x for x in ast.walk(f2) if getattr(x, '_drop', None)]:
        _drop(st, keep_value=st._drop[1])
    ast.fix_missing_locations(f2)
    set_parents(f2)
    f2._parent = None
    f2._inlined_names = sorted({nm for nm, *_ in inlined})
    _fold_literal_index(f2)
    return f2


def _fold_literal_index(f):
    """`(a, b, c)[1]` -> `b` (left behind when a packed tuple was inlined into its unpacking)"""
    class Fold(ast.NodeTransformer):
        def visit_Subscript(self, n):
            self.generic_visit(n)
            if isinstance(n.value, (ast.Tuple, ast.List)) and isinstance(n.ctx, ast.Load) and \
                    isinstance(n.slice, ast.Constant) and isinstance(n.slice.value, int) and \
                    not any(isinstance(e, ast.Starred) for e in n.value.elts) and \
                    -len(n.value.elts) <= n.slice.value < len(n.value.elts):
                return ast.copy_location(n.value.elts[n.slice.value], n)
            return n
    Fold().visit(f)
    ast.fix_missing_locations(f)
    set_parents(f)
    f._parent = None


def _drop(st, keep_value):
    p = st._parent
    for fld in ('body', 'orelse', 'finalbody'):
        blk = getattr(p, fld, None)
        if isinstance(blk, list):
            for i, s in enumerate(blk):
                if s is st:
                    has_call = any(isinstance(x, ast.Call) for x in ast.walk(st.value))
                    if keep_value and has_call:
                        new = ast.Expr(value=st.value)
                        ast.copy_location(new, st)
                        blk[i] = new
                    elif len(blk) == 1:
                        new = ast.Pass()
                        ast.copy_location(new, st)
                        blk[i] = new
                    else:
                        del blk[i]
                    return


def unroll_literal_loops(func, max_items=12):
    """Copy of func in which `for x in (A, B, ..): body` over a literal tuple / list of at most
    max_items expressions (no break / continue / else, x a plain name not re-bound in the body) is
    replaced by the bodies with x substituted: a loop over two attributes is the same program as
    the two statements written out."""
    f = _dc(func)

    class Sub(ast.NodeTransformer):
        def __init__(self, name, expr):
            self.name, self.expr = name, expr

        def visit_Name(self, n):
            if n.id == self.name and isinstance(n.ctx, ast.Load):
                new = _dc(self.expr)
                return ast.copy_location(new, n)
            return n

    # names bound exactly once to a literal list / tuple and never updated in place
    lit = {}
    nstore = {}
    for x in ast.walk(f):
        if isinstance(x, ast.Name) and isinstance(x.ctx, (ast.Store, ast.Del)):
            nstore[x.id] = nstore.get(x.id, 0) + 1
    for x in ast.walk(f):
        if isinstance(x, ast.Assign) and len(x.targets) == 1 and isinstance(
                x.targets[0], ast.Name) and isinstance(x.value, (ast.List, ast.Tuple)) and \
                nstore.get(x.targets[0].id) == 1:
            lit[x.targets[0].id] = x.value
    for x in ast.walk(f):
        if isinstance(x, ast.Attribute) and isinstance(x.value, ast.Name) and \
                x.value.id in lit and x.attr in ('append', 'extend', 'insert', 'pop', 'remove',
                                                  'sort', 'reverse', 'clear'):
            lit.pop(x.value.id, None)
        if isinstance(x, ast.Subscript) and isinstance(x.ctx, (ast.Store, ast.Del)) and \
                isinstance(x.value, ast.Name):
            lit.pop(x.value.id, None)

    def items_of(st):
        """[(target name -> expr)] per iteration, or None"""
        it = st.iter
        if isinstance(it, ast.Name) and it.id in lit:
            it = lit[it.id]
        if not isinstance(it, (ast.Tuple, ast.List)) or not (0 < len(it.elts) <= max_items):
            return None
        if isinstance(st.target, ast.Name):
            return [{st.target.id: e} for e in it.elts]
        if isinstance(st.target, (ast.Tuple, ast.List)) and all(
                isinstance(t, ast.Name) for t in st.target.elts):
            out = []
            for e in it.elts:
                if not isinstance(e, (ast.Tuple, ast.List)) or len(e.elts) != len(
                        st.target.elts):
                    return None
                out.append({t.id: v for t, v in zip(st.target.elts, e.elts)})
            return out
        return None

    def rewrite(stmts):
        out = []
        for st in stmts:
            for fld in ('body', 'orelse', 'finalbody'):
                blk = getattr(st, fld, None)
                if isinstance(blk, list) and blk and isinstance(blk[0], ast.stmt):
                    setattr(st, fld, rewrite(blk))
            if isinstance(st, ast.Try):
                for h in st.handlers:
                    h.body = rewrite(h.body)
            its = items_of(st) if isinstance(st, ast.For) else None
            if its is not None and len(st.body) >= 2 and isinstance(st.body[0], ast.If) and \
                    len(st.body[0].body) == 1 and isinstance(st.body[0].body[0], ast.Continue) \
                    and not st.body[0].orelse and not any(
                        isinstance(x, (ast.Break, ast.Continue))
                        for b in st.body[1:] for x in ast.walk(b)):
                # guard clause `if C: continue` == `if not C: <rest>`
                t = st.body[0].test
                if isinstance(t, ast.Compare) and len(t.ops) == 1 and isinstance(
                        t.ops[0], (ast.Is, ast.IsNot)):
                    neg = ast.Compare(left=t.left, ops=[ast.IsNot() if isinstance(
                        t.ops[0], ast.Is) else ast.Is()], comparators=t.comparators)
                else:
                    neg = ast.UnaryOp(op=ast.Not(), operand=t)
                st.body = [ast.If(test=neg, body=st.body[1:], orelse=[])]
                ast.fix_missing_locations(st)
            if its is not None and not st.orelse and not any(
                    isinstance(x, (ast.Break, ast.Continue))
                    for b in st.body for x in ast.walk(b)) and not any(
                        isinstance(x, ast.Name) and x.id in its[0] and
                        isinstance(x.ctx, (ast.Store, ast.Del))
                        for b in st.body for x in ast.walk(b)):
                for binding in its:
                    for b in st.body:
                        nb = _dc(b)
                        for nm, e in binding.items():
                            nb = Sub(nm, e).visit(nb)
                        for x in ast.walk(nb):
                            if hasattr(x, 'lineno'):
                                x.lineno = st.lineno
                                x.end_lineno = st.lineno
                        out.append(nb)
                continue
            out.append(st)
        return out
    f.body = rewrite(f.body)
    ast.fix_missing_locations(f)
    set_parents(f)
    f._parent = None
    return f


def publish_locals(func):
    """Normal form for locals that only NAME an object on its way into an attribute:
        v = E ; T = v      ->  T = E      (later reads of v become T)
        v = E ; T = [v]    ->  T = [E]    (later reads of v become T[-1])
    where T is `self.<attr>` or `self.<attr>[<index>]`, v is assigned exactly once and is not read
    between its definition and the publishing store. A refactoring that introduces such names
    (`residual = ..; self.rs[-1] = residual`) leaves the sequence of effects on the attributes
    unchanged; rules that compare these effects see one shape."""
    import copy
    f = copy.deepcopy(func)

    class Repl(ast.NodeTransformer):
        def __init__(self, name, expr):
            self.name, self.expr = name, expr

        def visit_Name(self, n):
            if n.id == self.name and isinstance(n.ctx, ast.Load):
                return copy.deepcopy(self.expr)
            return n

    def is_target(t):
        b = t
        while isinstance(b, ast.Subscript):
            b = b.value
        return isinstance(b, ast.Attribute) and isinstance(b.value, ast.Name) and b.value.id == 'self'
    changed = True
    while changed:
        changed = False
        stores = {}
        for n in ast.walk(f):
            if isinstance(n, ast.Name) and isinstance(n.ctx, ast.Store):
                stores[n.id] = stores.get(n.id, 0) + 1
        for blk_owner in ast.walk(f):
            for fld in ('body', 'orelse', 'finalbody'):
                blk = getattr(blk_owner, fld, None)
                if not isinstance(blk, list):
                    continue
                for i, st in enumerate(blk):
                    if not (isinstance(st, ast.Assign) and len(st.targets) == 1 and isinstance(
                            st.targets[0], ast.Name) and stores.get(st.targets[0].id) == 1):
                        continue
                    v = st.targets[0].id
                    for j in range(i + 1, len(blk)):
                        s2 = blk[j]
                        reads = [x for x in ast.walk(s2) if isinstance(x, ast.Name) and x.id == v]
                        if not reads:
                            continue
                        pub = None
                        if isinstance(s2, ast.Assign) and len(s2.targets) == 1 and is_target(
                                s2.targets[0]) and len(reads) == 1:
                            if isinstance(s2.value, ast.Name) and s2.value.id == v:
                                pub = ('plain', s2.targets[0])
                            elif isinstance(s2.value, ast.List) and len(s2.value.elts) == 1 and \
                                    isinstance(s2.value.elts[0], ast.Name) and \
                                    s2.value.elts[0].id == v:
                                pub = ('list', s2.targets[0])
                        if pub is None:
                            break
                        kind, tgt = pub
                        loc = copy.deepcopy(tgt)
                        for x in ast.walk(loc):
                            if hasattr(x, 'ctx'):
                                x.ctx = ast.Load()
                        if kind == 'plain':
                            s2.value = st.value
                            after = loc
                        else:
                            s2.value = ast.List(elts=[st.value], ctx=ast.Load())
                            after = ast.Subscript(value=loc, slice=ast.UnaryOp(
                                op=ast.USub(), operand=ast.Constant(value=1)), ctx=ast.Load())
                        for k in range(j + 1, len(blk)):
                            blk[k] = Repl(v, after).visit(blk[k])
                        del blk[i]
                        ast.fix_missing_locations(f)
                        changed = True
                        break
                    if changed:
                        break
                if changed:
                    break
            if changed:
                break
    return f
